// Package machine adapts the real emulator (github.com/scottyw/tetromino/gameboy, built with
// -tags verif) to the simulator: cartridge file on a scratch dir -> gameboy.New -> the real
// frame loop under a SimContext that gets a callback after every machine cycle.
package machine

import (
	"context"
	"errors"
	"fmt"
	"image"
	"os"
	"path/filepath"
	"runtime/debug"
	"strings"
	"sync/atomic"
	"time"

	"github.com/scottyw/tetromino/gameboy"
	"github.com/scottyw/tetromino/gameboy/audio"
	"github.com/scottyw/tetromino/gameboy/controller"
	"github.com/scottyw/tetromino/gameboy/cpu"
	"github.com/scottyw/tetromino/gameboy/display"
	"github.com/scottyw/tetromino/gameboy/interrupts"
	"github.com/scottyw/tetromino/gameboy/memory"
	"github.com/scottyw/tetromino/gameboy/oam"
	"github.com/scottyw/tetromino/gameboy/ppu"
	"github.com/scottyw/tetromino/gameboy/speakers"
	"github.com/scottyw/tetromino/gameboy/timer"
)

// Options of one emulator instance.
type Options struct {
	Audio    bool // attach simulated speakers (sample channels)
	Video    bool // attach simulated display
	Serial   bool // attach serial writer
	ChanCap  int  // capacity of the sample channels (0: production value 200)
	DebugLCD bool
	DebugCPU bool // instruction trace on standard output
	SamePath bool // the ROM file is written under one and the same name for every instance of the process
}

type stopSentinel struct{}

// Machine is one emulator instance under simulation.
type Machine struct {
	GB   *gameboy.Gameboy
	CPU  *cpu.CPU
	Map  *memory.Mapper
	Tim  *timer.Timer
	PPU  *ppu.PPU
	APU  *audio.Audio
	IRQ  *interrupts.Interrupts
	Ctl  *controller.Controller
	OAM  *oam.OAM
	Disp *display.Display
	Spk  *speakers.Speakers

	N      uint64 // machine cycles executed (= current boundary index)
	MTick  int    // mtick of the last executed cycle within its frame
	Frames int    // frames handed to the display

	// OnCycle is called at every boundary (after N was incremented).
	OnCycle func()
	// OnFrame is called by the simulated display with each frame; its result is the
	// simulated "window should close".
	OnFrame func(frame *image.RGBA) bool
	// GuardUndefined stops the run before an undefined opcode would execute (the
	// emulator deliberately calls os.Exit there).
	GuardUndefined     bool
	StoppedOnUndefined bool

	// OnBusWrite / OnBusRead are called for every access of the CPU to the bus once TapBus was called
	// (a write before it is performed, a read after it returned).
	OnBusWrite func(addr uint16, val uint8)
	OnBusRead  func(addr uint16, val uint8)
	tapped     bool

	Aux uint64 // digest of whatever a check observed before the first cycle (part of the instance's trace)

	AutoDrain bool // drain the sample channels after every cycle (checks that attach speakers without judging sound)

	DisplayCleanups int
	SlowSerial      bool // coroutine mode: the serial writer blocks (yields to the scheduler) before consuming its argument
	SerialParks     int
	DoneCalls       int // number of times Run evaluated ctx.Done()

	SerialOut    []byte
	SerialAt     []uint64
	SerialClosed int // number of times the emulator closed the caller's serial writer

	ctx     *SimContext
	stopAt  uint64
	useStop bool
	co      *coState
}

// SimContext is the context handed to the real frame loop. It carries the per-cycle hook.
type SimContext struct {
	m      *Machine
	done   chan struct{}
	closed bool
	// CancelAtDoneCall: Done() becomes ready at its k-th evaluation (1-based), 0 = never.
	CancelAtDoneCall int
}

func (c *SimContext) Deadline() (time.Time, bool) { return time.Time{}, false }
func (c *SimContext) Done() <-chan struct{} {
	c.m.DoneCalls++
	if c.CancelAtDoneCall > 0 && c.m.DoneCalls >= c.CancelAtDoneCall {
		c.Cancel()
	}
	return c.done
}
func (c *SimContext) Err() error {
	if c.closed {
		return context.Canceled
	}
	return nil
}
func (c *SimContext) Value(key interface{}) interface{} { return nil }
func (c *SimContext) Cancel() {
	if !c.closed {
		c.closed = true
		close(c.done)
	}
}
func (c *SimContext) Cancelled() bool { return c.closed }

// EndCycle implements gameboy.CycleHooker.
func (c *SimContext) EndCycle(gb *gameboy.Gameboy, mtick int) {
	m := c.m
	m.N++
	m.MTick = mtick
	if m.AutoDrain && m.Spk != nil {
		// a prompt audio consumer for checks that are not about sound: whatever was produced is taken
		for more := true; more; {
			select {
			case _, ok := <-m.Spk.Left():
				more = ok
			default:
				more = false
			}
		}
		for more := true; more; {
			select {
			case _, ok := <-m.Spk.Right():
				more = ok
			default:
				more = false
			}
		}
	}
	if m.OnCycle != nil {
		m.OnCycle()
	}
	if m.GuardUndefined && m.nextIsUndefined() {
		m.StoppedOnUndefined = true
		panic(stopSentinel{})
	}
	if m.useStop && m.N >= m.stopAt {
		panic(stopSentinel{})
	}
	if co := m.co; co != nil && m.N >= co.stopAt {
		co.running = false
		co.parked <- false
		k, ok := <-co.resume
		if !ok {
			// abandoned: end the goroutine
			panic(stopSentinel{})
		}
		co.running = true
		co.stopAt = m.N + k
	}
}

// nextIsUndefined reports whether the CPU is at an instruction boundary and the next opcode
// it would execute is undefined (the emulator deliberately exits the process there).
func (m *Machine) nextIsUndefined() bool {
	if !m.CPU.VerifAtBoundary() || m.CPU.VerifHalted() {
		return false
	}
	return IsUndefined(m.Map.Read(m.CPU.VerifGetRegs().PC)) && !m.willDispatch()
}

func (m *Machine) willDispatch() bool {
	return m.IRQ.Enabled() && m.IRQ.Pending()
}

// IsUndefined reports whether op is one of the 11 undefined base opcodes.
func IsUndefined(op uint8) bool {
	switch op {
	case 0xd3, 0xdb, 0xdd, 0xe3, 0xe4, 0xeb, 0xec, 0xed, 0xf4, 0xfc, 0xfd:
		return true
	}
	return false
}

type dispHandler struct{ m *Machine }

func (h dispHandler) RenderFrame(frame *image.RGBA) bool {
	h.m.Frames++
	if h.m.OnFrame != nil {
		return h.m.OnFrame(frame)
	}
	return false
}
func (h dispHandler) Cleanup() { h.m.DisplayCleanups++ }

type serialRec struct{ m *Machine }

func (s serialRec) Write(p []byte) (int, error) {
	if co := s.m.co; co != nil && co.running && s.m.SlowSerial {
		// a slow consumer: the instance blocks inside Write (before p has been consumed) and the
		// scheduler decides who runs meanwhile; p is read only after the instance is resumed
		s.m.SerialParks++
		co.inWriter = true
		co.running = false
		co.parked <- false
		k, ok := <-co.resume
		if !ok {
			panic(stopSentinel{})
		}
		co.running = true
		co.inWriter = false
		co.stopAt = s.m.N + k
	}
	if s.m.SerialClosed > 0 {
		return 0, errors.New("serial writer: write after Close")
	}
	for _, b := range p {
		s.m.SerialOut = append(s.m.SerialOut, b)
		s.m.SerialAt = append(s.m.SerialAt, s.m.N)
	}
	return len(p), nil
}

// Close makes the recorder a closable writer like a file: it belongs to the caller, and whoever closes
// it ends the transcript (writes after that fail).
func (s serialRec) Close() error {
	s.m.SerialClosed++
	return nil
}

var scratchDir string

var romSeq atomic.Int64

// ScratchDir returns the per-process scratch directory for ROM files (simulated disk).
func ScratchDir() string {
	if scratchDir == "" {
		base := "/dev/shm"
		if st, err := os.Stat(base); err != nil || !st.IsDir() {
			base = os.TempDir()
		}
		d, err := os.MkdirTemp(base, "verifsim-")
		if err != nil {
			panic(err)
		}
		scratchDir = d
	}
	return scratchDir
}

// RemoveScratch deletes the scratch directory.
func RemoveScratch() {
	if scratchDir != "" {
		os.RemoveAll(scratchDir)
		scratchDir = ""
	}
}

// PanicInfo describes a recovered panic.
type PanicInfo struct {
	Value    string
	Stack    string
	Emulator bool   // the panicking frame is emulator code
	Site     string // function of the first emulator frame
}

// Protect runs f and returns a description of the panic it raised, if any.
func Protect(f func()) (pi *PanicInfo) {
	defer func() {
		if r := recover(); r != nil {
			if _, ok := r.(stopSentinel); ok {
				return
			}
			st := string(debug.Stack())
			pi = &PanicInfo{Value: fmt.Sprint(r), Stack: st}
			pi.Emulator, pi.Site = ClassifyStack(st)
		}
	}()
	f()
	return nil
}

// classifyStack finds the first frame below the panic machinery. If it belongs to the
// emulator module the panic is the emulator's.
func ClassifyStack(st string) (bool, string) {
	lines := strings.Split(st, "\n")
	// a panic may have been re-raised by deferred functions on its way up: the original
	// one is the deepest, i.e. the last "panic(" line of the trace
	last := -1
	for i, ln := range lines {
		if strings.HasPrefix(ln, "panic(") {
			last = i
		}
	}
	if last < 0 {
		return false, ""
	}
	lines = lines[last:]
	seenPanic := false
	for _, ln := range lines {
		if strings.HasPrefix(ln, "\t") || ln == "" {
			continue
		}
		if strings.HasPrefix(ln, "panic(") {
			seenPanic = true
			continue
		}
		if !seenPanic {
			continue
		}
		if strings.HasPrefix(ln, "runtime.") || strings.HasPrefix(ln, "runtime/") {
			continue
		}
		fn := ln
		if i := strings.LastIndex(fn, "("); i > 0 {
			fn = fn[:i]
		}
		if strings.Contains(ln, "github.com/scottyw/tetromino/") {
			return true, strings.TrimPrefix(fn, "github.com/scottyw/tetromino/")
		}
		return false, fn
	}
	return false, ""
}

// New writes the image to the simulated disk and constructs a real emulator on it.
// A panic during construction is returned as PanicInfo (construction may legitimately fail).
func New(img []byte, missing bool, opt Options) (*Machine, *PanicInfo) {
	m := &Machine{}
	path := filepath.Join(ScratchDir(), fmt.Sprintf("rom-%d-%d.gb", os.Getpid(), romSeq.Add(1)))
	if opt.SamePath {
		// like a ROM that is rebuilt between two runs: the same file name, other contents (the file is
		// read during construction and removed afterwards)
		path = filepath.Join(ScratchDir(), fmt.Sprintf("rom-%d-same.gb", os.Getpid()))
	}
	if missing {
		os.Remove(path)
	} else {
		if err := os.WriteFile(path, img, 0o600); err != nil {
			panic(err)
		}
		if opt.SamePath {
			// ... and the same modification time (a copy that preserves times)
			t := time.Unix(1_000_000_000, 0)
			os.Chtimes(path, t, t)
		}
		defer os.Remove(path)
	}
	cfg := gameboy.Config{
		RomFilename:        path,
		DisableVideoOutput: !opt.Video,
		DisableAudioOutput: !opt.Audio,
		DebugLCD:           opt.DebugLCD,
		DebugCPU:           opt.DebugCPU,
	}
	if opt.Serial {
		cfg.SerialWriter = serialRec{m}
	}
	pi := Protect(func() {
		if opt.Video {
			display.NextHandler = dispHandler{m}
		}
		if opt.Audio {
			speakers.NextCapacity = opt.ChanCap
		}
		m.GB = gameboy.New(cfg)
	})
	// the hand-off variables of the simulated devices are only touched by constructions that attach
	// a device (those are serialised by the scheduler); instances without devices may be constructed
	// concurrently (C25 class concurrent) and share nothing with the harness
	if opt.Video {
		display.NextHandler = nil
	}
	if opt.Audio {
		speakers.NextCapacity = 0
	}
	if pi != nil {
		return nil, pi
	}
	gb := m.GB
	m.CPU = gb.VerifCPU()
	m.Map = gb.VerifMapper()
	m.Tim = gb.VerifTimer()
	m.PPU = gb.VerifPPU()
	m.APU = gb.VerifAudio()
	m.IRQ = gb.VerifInterrupts()
	m.Ctl = gb.VerifController()
	m.OAM = m.Map.VerifOAM()
	m.Disp = gb.VerifDisplay()
	m.Spk = gb.VerifSpeakers()
	m.ctx = &SimContext{m: m, done: make(chan struct{})}
	return m, nil
}

// BusAccess is one access of the CPU to the bus, recorded by the tap.
type BusAccess struct {
	N     uint64 // machine cycle in which it happened (1-based: cycle N ends at boundary N)
	Addr  uint16
	Val   uint8
	Write bool
}

type busTap struct {
	inner cpu.VerifBus
	m     *Machine
}

func (b *busTap) Read(a uint16) byte {
	v := b.inner.Read(a)
	if b.m.OnBusRead != nil {
		b.m.OnBusRead(a, v)
	}
	return v
}

func (b *busTap) Write(a uint16, v byte) {
	if b.m.OnBusWrite != nil {
		b.m.OnBusWrite(a, v)
	}
	b.inner.Write(a, v)
}

// TapBus puts a recording tap between the CPU and the memory mapper (hook H4). Only accesses made
// by the CPU pass through it: the DMA engine and the harness itself use the mapper directly.
func (m *Machine) TapBus() {
	if m.tapped {
		return
	}
	m.tapped = true
	m.CPU.VerifWrapBus(func(inner cpu.VerifBus) cpu.VerifBus { return &busTap{inner: inner, m: m} })
}

// Ctx returns the simulated context.
func (m *Machine) Ctx() *SimContext { return m.ctx }

// RunCycles runs exactly n machine cycles of the real frame loop and returns. OnCycle is
// invoked at every boundary. A frame that is interrupted by the stop is not handed to the
// display (use RunFrames for whole frames).
func (m *Machine) RunCycles(n uint64) {
	if n == 0 {
		return
	}
	if m.GuardUndefined && m.nextIsUndefined() {
		m.StoppedOnUndefined = true
		return
	}
	m.stopAt = m.N + n
	m.useStop = true
	defer func() {
		m.useStop = false
		if r := recover(); r != nil {
			if _, ok := r.(stopSentinel); !ok {
				panic(r)
			}
		}
	}()
	for {
		m.GB.VerifRunFrame(m.ctx)
	}
}

// RunFrames runs k complete frames of the real frame loop (each is handed to the display
// when one is attached). It returns early, with true, if the display asked to close or the
// run was stopped by the undefined-opcode guard.
func (m *Machine) RunFrames(k int) (stopped bool) {
	defer func() {
		if r := recover(); r != nil {
			if _, ok := r.(stopSentinel); !ok {
				panic(r)
			}
			stopped = true
		}
	}()
	if m.GuardUndefined && m.nextIsUndefined() {
		m.StoppedOnUndefined = true
		return true
	}
	for i := 0; i < k; i++ {
		if m.GB.VerifRunFrame(m.ctx) {
			return true
		}
	}
	return false
}

// RunReal calls the emulator's own Run under the simulated context.
func (m *Machine) RunReal() {
	defer func() {
		if r := recover(); r != nil {
			if _, ok := r.(stopSentinel); !ok {
				panic(r)
			}
		}
	}()
	if m.GuardUndefined && m.nextIsUndefined() {
		m.StoppedOnUndefined = true
		return
	}
	m.GB.Run(m.ctx)
}

// Stop ends the current RunCycles/RunFrames/RunReal from inside OnCycle.
func (m *Machine) Stop() { panic(stopSentinel{}) }

// Bus access exactly as the CPU performs it.
func (m *Machine) Read(a uint16) uint8     { return m.Map.Read(a) }
func (m *Machine) Write(a uint16, v uint8) { m.Map.Write(a, v) }

// RaiseIRQ raises interrupt line 0..4.
func (m *Machine) RaiseIRQ(line int) {
	switch line {
	case 0:
		m.IRQ.RequestVblank()
	case 1:
		m.IRQ.RequestStat()
	case 2:
		m.IRQ.RequestTimer()
	case 3:
		m.IRQ.RequestSerial()
	case 4:
		m.IRQ.RequestJoypad()
	}
}

// Key delivers a key event through the display seam when a display is attached (exactly
// what the GLFW callback does), otherwise directly to controller and CPU.
func (m *Machine) Key(b controller.Button, pressed bool) {
	if m.Disp != nil {
		m.Disp.Key(b, pressed)
		return
	}
	m.Ctl.ButtonAction(b, pressed)
	m.CPU.OnInput()
}

// PeekOAM returns OAM without touching the OAM-bug machinery.
func (m *Machine) PeekOAM() [0xa0]byte { return m.OAM.VerifPeek() }

// Park puts a tight JR -2 loop into HRAM and points the CPU at it with IME clear, so that
// the CPU performs no data accesses while a scripted bus master works.
func (m *Machine) Park() {
	m.Map.Write(0xfffc, 0x18)
	m.Map.Write(0xfffd, 0xfe)
	r := m.CPU.VerifGetRegs()
	r.PC = 0xfffc
	r.SP = 0xfffa
	m.CPU.VerifSetRegs(r)
	m.IRQ.Disable()
}

// ParkAs parks the CPU in one of the states in which it performs no data accesses: 0 = the JR loop of
// Park, 1 = halted (HALT with nothing enabled: it never wakes), 2 = stopped (STOP; a key event resumes it
// and the loop stops it again). The frame loop keeps stepping every other unit in all three.
func (m *Machine) ParkAs(mode int) {
	m.Park()
	switch mode {
	case 1:
		m.Map.Write(0xffff, 0x00)
		m.Map.Write(0xfff8, 0x76) // HALT
		m.Map.Write(0xfff9, 0x18) // JR -3
		m.Map.Write(0xfffa, 0xfd)
	case 2:
		m.Map.Write(0xfff8, 0x10) // STOP
		m.Map.Write(0xfff9, 0x00)
		m.Map.Write(0xfffa, 0x18) // JR -4
		m.Map.Write(0xfffb, 0xfc)
	default:
		return
	}
	r := m.CPU.VerifGetRegs()
	r.PC = 0xfff8
	r.SP = 0xfff6
	m.CPU.VerifSetRegs(r)
}

// ---- coroutine mode -----------------------------------------------------------------------
// An instance can run its real frame loop in its own goroutine and be advanced in slices by a
// scheduler that owns the only token: the goroutine parks inside the per-cycle hook and runs
// only between Resume and the end of its slice, so interleavings of several instances are
// decided entirely by the caller and replay exactly. Unlike RunCycles, frames are never cut.

type coState struct {
	abandoned bool
	running   bool // the instance's goroutine holds the token
	inWriter  bool // parked inside the serial writer (not at a cycle boundary)
	resume    chan uint64
	parked    chan bool // true: finished
	stopAt    uint64
	done      bool
	Panic     *PanicInfo
}

// StartCo prepares the instance to run `frames` complete frames in coroutine mode.
func (m *Machine) StartCo(frames int) {
	co := &coState{resume: make(chan uint64), parked: make(chan bool)}
	m.co = co
	go func() {
		k, ok := <-co.resume
		if !ok {
			return
		}
		co.stopAt = m.N + k
		co.running = true
		co.Panic = Protect(func() { m.RunFrames(frames) })
		co.running = false
		if co.abandoned {
			return
		}
		co.done = true
		co.parked <- true
	}()
}

// Resume lets the instance run k more machine cycles (or to its end). It returns true when
// the instance has finished its frames (or stopped on the undefined-opcode guard, or panicked).
func (m *Machine) Resume(k uint64) bool {
	co := m.co
	if co == nil || co.done {
		return true
	}
	co.resume <- k
	return <-co.parked
}

// InWriter reports whether the instance is parked inside its serial writer.
func (m *Machine) InWriter() bool { return m.co != nil && m.co.inWriter }

// CoPanic returns the panic that ended the coroutine, if any.
func (m *Machine) CoPanic() *PanicInfo {
	if m.co == nil {
		return nil
	}
	return m.co.Panic
}

// Abandon releases a parked coroutine goroutine (it never runs again).
func (m *Machine) Abandon() {
	if m.co != nil && !m.co.done {
		m.co.done = true
		m.co.abandoned = true
		close(m.co.resume)
	}
}
