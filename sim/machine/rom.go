package machine

import (
	"os"
	"path/filepath"
	"strings"
)

// ROMResult is the outcome of running a self-checking test ROM under the simulator.
type ROMResult struct {
	Done    bool   // the ROM signalled completion within the budget
	Pass    bool   // and reported success
	Cycles  uint64 // machine cycles run
	Serial  string
	Regs    []uint8 // mooneye signature registers B,C,D,E,H,L
	Mooneye bool
}

// RunROM runs a test ROM from the repository's testdata until it reports a result or the
// cycle budget is used up. blargg ROMs report "Passed"/"Failed" on the serial port or in
// cartridge RAM (text at A004); mooneye ROMs execute LD B,B with a Fibonacci signature.
// There is no wall clock: completion is detected by the per-cycle hook.
func RunROM(rel string, budget uint64, hook func(m *Machine)) (ROMResult, *PanicInfo) {
	var res ROMResult
	img, err := os.ReadFile(filepath.Join("/repo/gameboy/testdata", rel))
	if err != nil {
		return res, &PanicInfo{Value: "cannot read ROM: " + err.Error()}
	}
	m, pi := New(img, false, Options{Serial: true})
	if pi != nil {
		return res, pi
	}
	m.GuardUndefined = true
	check := func() bool {
		if r := m.CPU.CheckMooneye(); r != nil {
			res.Mooneye = true
			res.Regs = r
			res.Done = true
			res.Pass = len(r) == 6 && r[0] == 3 && r[1] == 5 && r[2] == 8 && r[3] == 13 && r[4] == 21 && r[5] == 34
			return true
		}
		return false
	}
	m.OnCycle = func() {
		if hook != nil {
			hook(m)
		}
		if m.N&0x3ff != 0 {
			return
		}
		if strings.Contains(rel, "mts-") {
			if check() {
				m.Stop()
			}
			return
		}
		s := string(m.SerialOut)
		if strings.Contains(s, "Passed") || strings.Contains(s, "Failed") {
			res.Done = true
			res.Pass = strings.Contains(s, "Passed")
			m.Stop()
			return
		}
		if m.N&0xffff == 0 {
			ram := m.Map.DumpRAM()
			if len(ram) > 0x100 {
				txt := string(ram[:0x200])
				if strings.Contains(txt, "Passed") || strings.Contains(txt, "Failed") {
					res.Done = true
					res.Pass = strings.Contains(txt, "Passed")
					m.Stop()
				}
			}
		}
		if m.N >= budget {
			m.Stop()
		}
	}
	pi = Protect(func() { m.RunCycles(budget) })
	res.Cycles = m.N
	res.Serial = string(m.SerialOut)
	return res, pi
}
