package engine

import (
	"bytes"
	"encoding/json"
	"fmt"
	"os"
	"os/exec"
	"path/filepath"
	"runtime/debug"
	"sort"
	"strings"
	"sync"
	"time"
)

// ScenarioFor expands (seed, property, index, tier) to the scenario. Pure.
func ScenarioFor(p Property, seed uint64, index int, tier string) *Scenario {
	r := NewRand(Mix(seed, p.ID(), uint64(index)))
	sc := p.Generate(r, index, tier)
	if pg, ok := p.(PostGenerator); ok {
		// drawn from a separate stream so that the scenario proper does not change when the environment
		// dimensions are added to or removed from a property
		pg.PostGenerate(NewRand(Mix(seed^0x656e76, p.ID(), uint64(index))), sc)
	}
	sc.Property = p.ID()
	sc.Seed = seed
	sc.Index = index
	sc.Tier = tier
	return sc
}

// PostGenerator is implemented by properties whose scenarios get environment dimensions (state of
// the units the property does not talk about) chosen after generation.
type PostGenerator interface {
	PostGenerate(r *Rand, sc *Scenario)
}

// ProcessExitProperty is implemented by a property for which the emulator ending the whole process
// (os.Exit) while a scenario runs is itself a violation (C11: the only deliberate stop is an undefined
// opcode, and the harness never lets one execute). For every other property a dying worker is a
// harness fault.
type ProcessExitProperty interface {
	ProcessExitClass() string
}

// ExecInChild runs one scenario file in a child process (simcheck -inner). done=false means the child
// ended without reporting: the process was ended from inside the scenario.
func ExecInChild(selfExe, path string) (done bool, status int, output string) {
	cmd := exec.Command(selfExe, "-inner", path)
	cmd.Env = append(os.Environ(), "GOMAXPROCS=1")
	out, _ := cmd.CombinedOutput()
	if cmd.ProcessState != nil {
		status = cmd.ProcessState.ExitCode()
	}
	return strings.Contains(string(out), "INNER-DONE"), status, string(out)
}

// Inner is the child side of ExecInChild.
func Inner(p Property, path string) int {
	sc, err := LoadScenario(path)
	if err != nil {
		fmt.Printf("INNER-DONE harness %v\n", err)
		return 2
	}
	r := SafeExecute(p, sc)
	switch {
	case r.Harness != "":
		fmt.Printf("INNER-DONE harness %s\n", r.Harness)
	case r.Violation != nil:
		fmt.Printf("INNER-DONE violation %s\n", r.Violation.Class)
	default:
		fmt.Printf("INNER-DONE held\n")
	}
	return 0
}

// PanicClassifier is installed by package machine (avoids an import cycle): it tells whether
// a recovered panic originated in emulator code and where.
var PanicClassifier func(stack string) (emulator bool, site string)

// SafeExecute runs Execute and converts panics: one raised by emulator code is a violation
// of the global "no crash" invariant, anything else is a harness fault.
// FlakyClassProperty is implemented by properties some of whose violation classes come from truly
// concurrent executions: for those classes a replay that happens not to reproduce does not turn the
// observation into a harness fault.
type FlakyClassProperty interface {
	FlakyClass(class string) (attempts int, ok bool)
}

func SafeExecute(p Property, sc *Scenario) (res *Result) {
	defer func() {
		if r := recover(); r != nil {
			st := string(debug.Stack())
			res = &Result{}
			emu, site := false, ""
			if PanicClassifier != nil {
				emu, site = PanicClassifier(st)
			}
			if emu {
				res.Violation = &Violation{Class: p.ID() + "/emulator-panic/" + site, Detail: fmt.Sprint(r)}
			} else {
				res.Harness = fmt.Sprintf("harness panic: %v\n%s", r, st)
			}
		}
	}()
	if sc.P("env.debugcpu", 0) != 0 {
		// the instruction trace of the emulator goes to standard output: discarded
		if null, err := os.OpenFile(os.DevNull, os.O_WRONLY, 0); err == nil {
			saved := os.Stdout
			os.Stdout = null
			defer func() { os.Stdout = saved; null.Close() }()
		}
	}
	return p.Execute(sc)
}

type WorkerViolation struct {
	Index int        `json:"index"`
	V     *Violation `json:"v"`
	// the partition of the worker process that saw it (its earlier scenarios are From, From+Stride, ...)
	From   int `json:"from"`
	Stride int `json:"stride"`
	// ProcessExit: the worker process was ended while this scenario ran (not minimised in-process)
	ProcessExit bool `json:"process_exit,omitempty"`
}

// WorkerSummary is what a worker process prints.
type WorkerSummary struct {
	Evaluations  int               `json:"evaluations"`
	Cycles       uint64            `json:"cycles"`
	Sigs         map[string]int    `json:"sigs"`
	Faults       map[string]int    `json:"faults"`
	Probes       map[string]int    `json:"probes"`
	Violations   []WorkerViolation `json:"violations"`
	ClassCount   map[string]int    `json:"class_count"`
	Harness      []string          `json:"harness"`
	Digests      map[int]uint64    `json:"digests,omitempty"`
	from, stride int
}

func newSummary() *WorkerSummary {
	return &WorkerSummary{Sigs: map[string]int{}, Faults: map[string]int{}, Probes: map[string]int{}, ClassCount: map[string]int{}}
}

func (s *WorkerSummary) add(index int, r *Result, keepDigest bool) {
	s.Evaluations++
	s.Cycles += r.Cycles
	for _, g := range r.Sigs {
		s.Sigs[g]++
	}
	for k, v := range r.Faults {
		s.Faults[k] += v
	}
	for k, v := range r.Probes {
		s.Probes[k] += v
	}
	if r.Harness != "" && len(s.Harness) < 5 {
		s.Harness = append(s.Harness, fmt.Sprintf("index %d: %s", index, r.Harness))
	}
	if r.Violation != nil {
		s.ClassCount[r.Violation.Class]++
		// keep the lowest index per class
		found := false
		for _, wv := range s.Violations {
			if wv.V.Class == r.Violation.Class {
				found = true
				break
			}
		}
		if !found {
			s.Violations = append(s.Violations, WorkerViolation{Index: index, V: r.Violation, From: s.from, Stride: s.stride})
		}
	}
	if keepDigest {
		if s.Digests == nil {
			s.Digests = map[int]uint64{}
		}
		s.Digests[index] = r.Digest
	}
}

func (s *WorkerSummary) merge(o *WorkerSummary) {
	s.Evaluations += o.Evaluations
	s.Cycles += o.Cycles
	for k, v := range o.Sigs {
		s.Sigs[k] += v
	}
	for k, v := range o.Faults {
		s.Faults[k] += v
	}
	for k, v := range o.Probes {
		s.Probes[k] += v
	}
	for k, v := range o.ClassCount {
		s.ClassCount[k] += v
	}
	s.Harness = append(s.Harness, o.Harness...)
	for _, wv := range o.Violations {
		replaced := false
		for i := range s.Violations {
			if s.Violations[i].V.Class == wv.V.Class {
				if wv.Index < s.Violations[i].Index {
					s.Violations[i] = wv
				}
				replaced = true
			}
		}
		if !replaced {
			s.Violations = append(s.Violations, wv)
		}
	}
	for k, v := range o.Digests {
		if s.Digests == nil {
			s.Digests = map[int]uint64{}
		}
		s.Digests[k] = v
	}
}

// RunWorker executes indices from, from+stride, ... < to and prints the summary as JSON.
func RunWorker(p Property, seed uint64, tier string, from, to, stride int, digests bool) {
	s := newSummary()
	s.from, s.stride = from, stride
	for i := from; i < to; i += stride {
		// journal: if the emulator ends the process, the parent learns which scenario was running
		fmt.Fprintf(os.Stderr, "JOURNAL %d\n", i)
		sc := ScenarioFor(p, seed, i, tier)
		r := SafeExecute(p, sc)
		s.add(i, r, digests)
	}
	b, _ := json.Marshal(s)
	os.Stdout.Write(b)
	os.Stdout.Write([]byte("\n"))
}

// KnownFinding is one entry of /verif/known_findings.json.
type KnownFinding struct {
	Property string `json:"property"`
	Class    string `json:"class"`
	What     string `json:"what"`
	Status   string `json:"status"` // "known" (suppresses, prints KNOWN-FINDING) or "fixed" (suppresses nothing)
	Commit   string `json:"commit,omitempty"`
}

type KnownFile struct {
	Findings []KnownFinding `json:"findings"`
}

func LoadKnown(path string) (*KnownFile, error) {
	b, err := os.ReadFile(path)
	if err != nil {
		if os.IsNotExist(err) {
			return &KnownFile{}, nil
		}
		return nil, err
	}
	var k KnownFile
	if err := json.Unmarshal(b, &k); err != nil {
		return nil, err
	}
	return &k, nil
}

func (k *KnownFile) Known(prop, class string) *KnownFinding {
	for i := range k.Findings {
		f := &k.Findings[i]
		if f.Status == "known" && f.Property == prop && f.Class == class {
			return f
		}
	}
	return nil
}

// BatchConfig configures a parent run.
type BatchConfig struct {
	Prop      Property
	Tier      string
	Seed      uint64
	Workers   int
	VerifDir  string // /verif
	SelfExe   string
	Quiet     bool
	ExtraArgs []string
}

// RunBatch is the parent: it fans scenarios out to worker processes, merges, handles known
// findings, minimises and writes the replay for the first unknown violation, writes the
// evidence file and returns the exit code (0 held, 1 violation, 2 harness trouble).
func RunBatch(cfg BatchConfig) int {
	start := time.Now()
	p := cfg.Prop
	id := p.ID()
	fmt.Printf("simcheck property=%s tier=%s VERIF_SEED=%d workers=%d\n", id, cfg.Tier, cfg.Seed, cfg.Workers)
	budget := p.Budget(cfg.Tier)
	w := cfg.Workers
	if w > budget {
		w = budget
	}
	if w < 1 {
		w = 1
	}
	total := newSummary()
	var mu sync.Mutex
	var wg sync.WaitGroup
	var procErr []string
	for k := 0; k < w; k++ {
		wg.Add(1)
		go func(k int) {
			defer wg.Done()
			from := k
			var out, errb bytes.Buffer
			for restarts := 0; ; restarts++ {
				args := []string{"-worker", "-prop", id, "-tier", cfg.Tier, "-seed", fmt.Sprint(cfg.Seed),
					"-from", fmt.Sprint(from), "-to", fmt.Sprint(budget), "-stride", fmt.Sprint(w)}
				cmd := exec.Command(cfg.SelfExe, args...)
				cmd.Env = append(os.Environ(), "GOMAXPROCS=1")
				out.Reset()
				errb.Reset()
				cmd.Stdout = &out
				cmd.Stderr = &errb
				err := cmd.Run()
				if err == nil {
					break
				}
				// the worker process ended: by the emulator (a violation for a ProcessExitProperty, checked
				// again in a fresh child before it is believed) or by something else (harness fault)
				last := -1
				for _, ln := range strings.Split(errb.String(), "\n") {
					if strings.HasPrefix(ln, "JOURNAL ") {
						fmt.Sscanf(ln, "JOURNAL %d", &last)
					}
				}
				pe, isPE := p.(ProcessExitProperty)
				if !isPE || last < 0 || restarts >= 400 {
					mu.Lock()
					procErr = append(procErr, fmt.Sprintf("worker %d: %v\nstdout tail: %s\nstderr tail: %s", k, err, tail(out.String(), 600), tail(errb.String(), 1500)))
					mu.Unlock()
					return
				}
				status := -1
				if cmd.ProcessState != nil {
					status = cmd.ProcessState.ExitCode()
				}
				mu.Lock()
				total.Violations = append(total.Violations, WorkerViolation{Index: last, From: k, Stride: w, ProcessExit: true,
					V: &Violation{Class: pe.ProcessExitClass(), At: 0, Detail: fmt.Sprintf("the emulator ended the whole process (exit status %d) while this scenario ran; its last words: %s", status, strings.TrimSpace(tail(out.String()+errb.String(), 300)))}})
				total.ClassCount[pe.ProcessExitClass()]++
				mu.Unlock()
				from = last + w
				if from >= budget {
					out.Reset()
					break
				}
			}
			mu.Lock()
			defer mu.Unlock()
			if out.Len() == 0 {
				return
			}
			// the summary is the last line of stdout (the emulator may print)
			lines := strings.Split(strings.TrimSpace(out.String()), "\n")
			var s WorkerSummary
			if err := json.Unmarshal([]byte(lines[len(lines)-1]), &s); err != nil {
				procErr = append(procErr, fmt.Sprintf("worker %d: bad summary: %v: %s", k, err, tail(out.String(), 300)))
				return
			}
			total.merge(&s)
		}(k)
	}
	wg.Wait()
	if len(procErr) > 0 {
		sort.Strings(procErr)
		fmt.Printf("HARNESS-FAULT property=%s: %s\n", id, strings.Join(procErr, "\n"))
		return 2
	}
	if len(total.Harness) > 0 && len(total.Violations) == 0 {
		sort.Strings(total.Harness)
		fmt.Printf("HARNESS-FAULT property=%s: %s\n", id, total.Harness[0])
		return 2
	}
	if len(total.Harness) > 0 {
		// Scenarios the harness could not judge do not hide violations found (and replayed in a fresh
		// process) in other scenarios; they are listed and, if no violation survives, still end in exit 2.
		sort.Strings(total.Harness)
		fmt.Printf("also: %d scenario(s) could not be judged by the harness, first: %.300s\n", len(total.Harness), total.Harness[0])
	}
	known, err := LoadKnown(filepath.Join(cfg.VerifDir, "known_findings.json"))
	if err != nil {
		fmt.Printf("HARNESS-FAULT property=%s: known_findings.json: %v\n", id, err)
		return 2
	}
	sort.Slice(total.Violations, func(i, j int) bool {
		if total.Violations[i].Index != total.Violations[j].Index {
			return total.Violations[i].Index < total.Violations[j].Index
		}
		return total.Violations[i].V.Class < total.Violations[j].V.Class
	})
	exit := 0
	var knownSeen []string
	var firstUnknown *WorkerViolation
	for i := range total.Violations {
		wv := &total.Violations[i]
		if kf := known.Known(id, wv.V.Class); kf != nil {
			fmt.Printf("KNOWN-FINDING: property=%s class=%s %s (seen in %d scenarios, first index %d)\n", id, wv.V.Class, kf.What, total.ClassCount[wv.V.Class], wv.Index)
			knownSeen = append(knownSeen, wv.V.Class)
			continue
		}
		if firstUnknown == nil {
			firstUnknown = wv
		}
	}
	nviol := 0
	var replayPath string
	if firstUnknown != nil {
		nviol = 0
		for c, n := range total.ClassCount {
			if known.Known(id, c) == nil {
				nviol += n
			}
		}
		sc := ScenarioFor(p, cfg.Seed, firstUnknown.Index, cfg.Tier)
		full := sc.Clone()
		full.Expect = firstUnknown.V
		var min *Scenario
		if firstUnknown.ProcessExit {
			min = full.Clone() // executing it in this process would end this process
		} else {
			min = Minimise(p, sc, firstUnknown.V.Class, 300)
		}
		if min.Expect == nil {
			// the failure did not occur again while minimising (it depends on more than the scenario:
			// the history of the process, or it is nondeterministic): keep the unminimised scenario
			min = full.Clone()
		}
		os.MkdirAll(filepath.Join(cfg.VerifDir, "replays"), 0o755)
		replayPath = filepath.Join(cfg.VerifDir, "replays", fmt.Sprintf("%s-%d-%d.json", id, cfg.Seed, firstUnknown.Index))
		os.WriteFile(strings.TrimSuffix(replayPath, ".json")+".full.json", full.JSON(), 0o644)
		os.WriteFile(replayPath, min.JSON(), 0o644)
		// the replay must reproduce in a fresh process
		attempts, tolerateFlaky := 1, false
		if np, ok := p.(NondeterminismProperty); ok {
			attempts, tolerateFlaky = np.ReplayAttempts(), true
		}
		if fp, ok := p.(FlakyClassProperty); ok {
			// classes of violation that depend on how real threads happen to overlap (a data race seen by the
			// race detector): observed once is observed, whether or not a particular replay overlaps again
			if n, yes := fp.FlakyClass(firstUnknown.V.Class); yes {
				attempts, tolerateFlaky = n, true
			}
		}
		reproduced := false
		var out []byte
		if firstUnknown.ProcessExit {
			done, _, o := ExecInChild(cfg.SelfExe, replayPath)
			reproduced, out = !done, []byte(o)
			attempts = 0
		}
		for a := 0; a < attempts && !reproduced; a++ {
			cmd := exec.Command(cfg.SelfExe, "-replay", replayPath, "-prop", id)
			cmd.Env = append(os.Environ(), "GOMAXPROCS=1")
			out, _ = cmd.CombinedOutput()
			reproduced = cmd.ProcessState != nil && cmd.ProcessState.ExitCode() == 1 && strings.Contains(string(out), "REPRODUCED")
		}
		if !reproduced && !tolerateFlaky && firstUnknown.Stride > 0 && firstUnknown.Index > firstUnknown.From {
			// The scenario alone does not fail in a fresh process, but it did in a worker process that had
			// run other scenarios before: the behaviour depends on the history of the process (state
			// shared between emulator instances). Replay it after the worker's earlier scenarios, and
			// shorten that prelude as far as it still reproduces.
			avail := (firstUnknown.Index - firstUnknown.From) / firstUnknown.Stride
			try := func(k int) bool {
				sc := full.Clone()
				sc.Prelude = &Prelude{Seed: cfg.Seed, Tier: cfg.Tier, From: firstUnknown.Index - k*firstUnknown.Stride, Stride: firstUnknown.Stride, Count: k}
				os.WriteFile(replayPath, sc.JSON(), 0o644)
				cmd := exec.Command(cfg.SelfExe, "-replay", replayPath, "-prop", id)
				cmd.Env = append(os.Environ(), "GOMAXPROCS=1")
				out, _ = cmd.CombinedOutput()
				return cmd.ProcessState != nil && cmd.ProcessState.ExitCode() == 1 && strings.Contains(string(out), "REPRODUCED")
			}
			if try(avail) {
				best := avail
				for k := 1; k < avail; k *= 2 {
					if try(k) {
						best = k
						break
					}
				}
				try(best) // leaves the file of the shortest reproducing prelude
				reproduced = true
				min = full.Clone()
				min.Expect = firstUnknown.V
				min.Expect.Detail = fmt.Sprintf("[only when %d other scenario(s) ran earlier in the same process; alone in a fresh process the scenario holds: instances are not independent] ", best) + min.Expect.Detail
			}
		}
		if !reproduced {
			if !tolerateFlaky {
				fmt.Printf("HARNESS-FAULT property=%s: violation %s (index %d) does not replay from %s:\n%s\n", id, firstUnknown.V.Class, firstUnknown.Index, replayPath, tail(string(out), 1500))
				return 2
			}
			// the property is about run-to-run differences: the observed difference is the violation even
			// when a particular replay happens to agree with itself
			fmt.Printf("note: the difference was observed in the batch but %d replays of %s agreed with themselves: the behaviour is nondeterministic\n", attempts, replayPath)
		}
		fmt.Printf("violation class=%s index=%d at=%d: %s\n", min.Expect.Class, firstUnknown.Index, min.Expect.At, min.Expect.Detail)
		var others []string
		for c, n := range total.ClassCount {
			if known.Known(id, c) == nil && c != firstUnknown.V.Class {
				others = append(others, fmt.Sprintf("also: class=%s in %d scenarios", c, n))
			}
		}
		sort.Strings(others)
		for i, o := range others {
			if i == 8 {
				fmt.Printf("also: ... %d more classes\n", len(others)-8)
				break
			}
			fmt.Println(o)
		}
		fmt.Printf("VIOLATION property=%s replay=%s\n", id, replayPath)
		exit = 1
	}
	if exit == 0 && len(total.Harness) > 0 {
		fmt.Printf("HARNESS-FAULT property=%s: %s\n", id, total.Harness[0])
		return 2
	}
	info := p.Describe()
	if exit == 0 {
		for _, pr := range info.RequiredProbes {
			if total.Probes[pr] == 0 {
				fmt.Printf("HARNESS-FAULT property=%s: required probe %q never fired: the workload does not reach what the property talks about\n", id, pr)
				return 2
			}
		}
	}
	wall := time.Since(start).Seconds()
	// evidence
	samples := []interface{}{}
	for _, i := range sampleIndices(budget) {
		sc := ScenarioFor(p, cfg.Seed, i, cfg.Tier)
		samples = append(samples, compactScenario(sc))
	}
	distinct := len(total.Sigs)
	cov := map[string]interface{}{
		"evaluations":             total.Evaluations,
		"distinct_nontrivial":     distinct,
		"rule":                    info.Rule,
		"samples":                 samples,
		"exhaustive":              false,
		"sim_cycles":              total.Cycles,
		"sim_seconds":             float64(total.Cycles) / 1048576.0,
		"runs_per_hour":           float64(total.Evaluations) / wall * 3600,
		"seeds_this_run":          1,
		"faults_fired":            total.Faults,
		"probes":                  total.Probes,
		"sweeps":                  info.Sweeps,
		"real_components":         info.RealComponents,
		"stub_components":         info.StubComponents,
		"worker_processes":        w,
		"known_findings_seen":     knownSeen,
		"signature_histogram_top": topSigs(total.Sigs, 12),
	}
	ev := map[string]interface{}{
		"property_id": id,
		"tier":        cfg.Tier,
		"seed":        int64(cfg.Seed),
		"level":       "exploration",
		"coverage":    cov,
		"assumptions": info.Assumptions,
		"wall_s":      wall,
		"violations":  nviol,
	}
	if replayPath != "" {
		ev["replay"] = replayPath
	}
	b, _ := json.MarshalIndent(ev, "", " ")
	os.MkdirAll(filepath.Join(cfg.VerifDir, "evidence"), 0o755)
	if err := os.WriteFile(filepath.Join(cfg.VerifDir, "evidence", id+".json"), b, 0o644); err != nil {
		fmt.Printf("HARNESS-FAULT property=%s: cannot write evidence: %v\n", id, err)
		return 2
	}
	fmt.Printf("done property=%s tier=%s scenarios=%d distinct_signatures=%d sim_cycles=%d wall=%.1fs exit=%d\n", id, cfg.Tier, total.Evaluations, distinct, total.Cycles, wall, exit)
	return exit
}

func sampleIndices(budget int) []int {
	switch {
	case budget <= 0:
		return nil
	case budget == 1:
		return []int{0}
	case budget == 2:
		return []int{0, 1}
	}
	return []int{0, budget / 2, budget - 1}
}

// compactScenario truncates long fields so that evidence stays readable.
func compactScenario(sc *Scenario) interface{} {
	c := sc.Clone()
	if len(c.Events) > 24 {
		c.SetP("events_total", int64(len(c.Events)))
		c.Events = c.Events[:24]
	}
	if len(c.Cart.Program) > 160 {
		c.Cart.Program = c.Cart.Program[:160] + "..."
	}
	if len(c.Cart.RawHex) > 160 {
		c.Cart.RawHex = c.Cart.RawHex[:160] + "..."
	}
	for k, v := range c.Strs {
		if len(v) > 200 {
			c.Strs[k] = v[:200] + "..."
		}
	}
	var out interface{}
	json.Unmarshal(c.JSON(), &out)
	return out
}

func topSigs(m map[string]int, n int) map[string]int {
	type kv struct {
		k string
		v int
	}
	var xs []kv
	for k, v := range m {
		xs = append(xs, kv{k, v})
	}
	sort.Slice(xs, func(i, j int) bool {
		if xs[i].v != xs[j].v {
			return xs[i].v > xs[j].v
		}
		return xs[i].k < xs[j].k
	})
	out := map[string]int{}
	for i := 0; i < len(xs) && i < n; i++ {
		out[xs[i].k] = xs[i].v
	}
	return out
}

func tail(s string, n int) string {
	if len(s) > n {
		return "..." + s[len(s)-n:]
	}
	return s
}

// Replay executes a replay file and reports. Exit code 1 when the violation reproduces.
func Replay(p Property, path string) int {
	sc, err := LoadScenario(path)
	if err != nil {
		fmt.Printf("HARNESS-FAULT cannot load replay %s: %v\n", path, err)
		return 2
	}
	fmt.Printf("replay property=%s seed=%d index=%d tier=%s events=%d cycles=%d\n", sc.Property, sc.Seed, sc.Index, sc.Tier, len(sc.Events), sc.Cycles)
	if pl := sc.Prelude; pl != nil {
		fmt.Printf("prelude: %d earlier scenario(s) of seed %d tier %s in this process (indices %d, step %d)\n", pl.Count, pl.Seed, pl.Tier, pl.From, pl.Stride)
		for k := 0; k < pl.Count; k++ {
			SafeExecute(p, ScenarioFor(p, pl.Seed, pl.From+k*pl.Stride, pl.Tier))
		}
	}
	if pe, ok := p.(ProcessExitProperty); ok && sc.Expect != nil && sc.Expect.Class == pe.ProcessExitClass() {
		self, err := os.Executable()
		if err != nil {
			fmt.Printf("HARNESS-FAULT %v\n", err)
			return 2
		}
		done, status, o := ExecInChild(self, path)
		if done {
			fmt.Printf("NO-VIOLATION the replayed scenario ran to its end in a child process on this tree (%s)\n", strings.TrimSpace(tail(o, 120)))
			return 0
		}
		fmt.Printf("violation class=%s at=0: the emulator ended the child process (exit status %d): %s\n", sc.Expect.Class, status, strings.TrimSpace(tail(o, 300)))
		fmt.Printf("REPRODUCED exactly (class and position as recorded)\n")
		fmt.Printf("VIOLATION property=%s replay=%s\n", sc.Property, path)
		return 1
	}
	r := SafeExecute(p, sc)
	if r.Harness != "" {
		fmt.Printf("HARNESS-FAULT %s\n", r.Harness)
		return 2
	}
	if r.Violation == nil {
		fmt.Printf("NO-VIOLATION the replayed scenario holds on this tree\n")
		return 0
	}
	fmt.Printf("violation class=%s at=%d: %s\n", r.Violation.Class, r.Violation.At, r.Violation.Detail)
	if sc.Expect != nil {
		if sc.Expect.Class == r.Violation.Class && sc.Expect.At == r.Violation.At {
			fmt.Printf("REPRODUCED exactly (class and position as recorded)\n")
		} else if sc.Expect.Class == r.Violation.Class {
			fmt.Printf("REPRODUCED class (position differs: recorded %d)\n", sc.Expect.At)
		} else {
			fmt.Printf("REPRODUCED a different class (recorded %s)\n", sc.Expect.Class)
		}
	} else {
		fmt.Printf("REPRODUCED\n")
	}
	fmt.Printf("VIOLATION property=%s replay=%s\n", sc.Property, path)
	return 1
}
