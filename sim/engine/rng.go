// Package engine holds the deterministic-simulation core: the PRNG every choice is derived
// from, the scenario (= replay file) format, the property interface, the batch runner with
// worker processes, the minimiser and the evidence writer.
package engine

// Rand is xoshiro256** seeded through splitmix64. No global state, no math/rand.
type Rand struct{ s [4]uint64 }

func SplitMix64(x *uint64) uint64 {
	*x += 0x9e3779b97f4a7c15
	z := *x
	z = (z ^ (z >> 30)) * 0xbf58476d1ce4e5b9
	z = (z ^ (z >> 27)) * 0x94d049bb133111eb
	return z ^ (z >> 31)
}

// Mix derives a sub-seed from a seed, a label and an index.
func Mix(seed uint64, label string, index uint64) uint64 {
	h := uint64(0xcbf29ce484222325)
	for i := 0; i < len(label); i++ {
		h ^= uint64(label[i])
		h *= 0x100000001b3
	}
	x := seed ^ h
	a := SplitMix64(&x)
	x ^= index * 0x9e3779b97f4a7c15
	b := SplitMix64(&x)
	return a ^ (b << 1) ^ (b >> 63)
}

func NewRand(seed uint64) *Rand {
	r := &Rand{}
	x := seed
	for i := range r.s {
		r.s[i] = SplitMix64(&x)
	}
	return r
}

func rotl(x uint64, k uint) uint64 { return (x << k) | (x >> (64 - k)) }

func (r *Rand) U64() uint64 {
	s := &r.s
	res := rotl(s[1]*5, 7) * 9
	t := s[1] << 17
	s[2] ^= s[0]
	s[3] ^= s[1]
	s[1] ^= s[2]
	s[0] ^= s[3]
	s[2] ^= t
	s[3] = rotl(s[3], 45)
	return res
}

// Intn returns a value in [0,n). n must be > 0.
func (r *Rand) Intn(n int) int {
	if n <= 0 {
		panic("engine.Rand.Intn: n <= 0")
	}
	return int(r.U64() % uint64(n))
}

// Range returns a value in [lo,hi] inclusive.
func (r *Rand) Range(lo, hi int) int { return lo + r.Intn(hi-lo+1) }

func (r *Rand) Byte() uint8 { return uint8(r.U64() >> 32) }
func (r *Rand) U16() uint16 { return uint16(r.U64() >> 32) }
func (r *Rand) Bool() bool  { return r.U64()&(1<<40) != 0 }

// Chance returns true with probability num/den.
func (r *Rand) Chance(num, den int) bool { return r.Intn(den) < num }

// Float returns a value in [0,1).
func (r *Rand) Float() float64 { return float64(r.U64()>>11) / (1 << 53) }

// EdgeByte returns a byte biased towards boundary values.
func (r *Rand) EdgeByte() uint8 {
	if r.Chance(1, 2) {
		return r.Byte()
	}
	edges := []uint8{0x00, 0x01, 0x0f, 0x10, 0x7f, 0x80, 0xf0, 0xfe, 0xff, 0x0a, 0x99, 0x9a, 0x66}
	return edges[r.Intn(len(edges))]
}

// EdgeU16 returns a 16-bit value biased towards boundary values.
func (r *Rand) EdgeU16() uint16 {
	if r.Chance(1, 2) {
		return r.U16()
	}
	edges := []uint16{0x0000, 0x0001, 0x00ff, 0x0100, 0x0fff, 0x1000, 0x7fff, 0x8000, 0xfffe, 0xffff, 0xff00, 0x00f0, 0x0f00, 0xf000}
	return edges[r.Intn(len(edges))]
}

func Pick[T any](r *Rand, xs []T) T { return xs[r.Intn(len(xs))] }

// Bytes fills a fresh slice with random bytes.
func (r *Rand) Bytes(n int) []byte {
	b := make([]byte, n)
	for i := 0; i < n; i += 8 {
		v := r.U64()
		for j := 0; j < 8 && i+j < n; j++ {
			b[i+j] = byte(v >> (8 * j))
		}
	}
	return b
}
