package engine

// Shrinker may be implemented by a property to propose smaller variants of a failing
// scenario beyond the generic event/duration reduction.
type Shrinker interface {
	Shrink(sc *Scenario) []*Scenario
}

// Minimise reduces a failing scenario while the same violation class persists. The budget
// is a number of executions (not wall time) so that the result is reproducible.
func Minimise(p Property, sc *Scenario, class string, budget int) *Scenario {
	execs := 0
	fails := func(c *Scenario) *Violation {
		if execs >= budget {
			return nil
		}
		execs++
		r := SafeExecute(p, c)
		if r.Harness == "" && r.Violation != nil && r.Violation.Class == class {
			return r.Violation
		}
		return nil
	}
	best := sc.Clone()
	v := fails(best)
	if v == nil {
		// does not even reproduce in-process: return unchanged, the caller's replay check reports it
		return best
	}
	best.Expect = v

	// 1. ddmin over the event list
	n := 2
	for len(best.Events) >= 1 && execs < budget {
		evs := best.Events
		chunk := (len(evs) + n - 1) / n
		reduced := false
		for start := 0; start < len(evs); start += chunk {
			end := start + chunk
			if end > len(evs) {
				end = len(evs)
			}
			cand := best.Clone()
			cand.Events = append(append([]Event(nil), evs[:start]...), evs[end:]...)
			if v := fails(cand); v != nil {
				cand.Expect = v
				best = cand
				if n > 2 {
					n--
				}
				reduced = true
				break
			}
		}
		if !reduced {
			if chunk <= 1 {
				break
			}
			n *= 2
			if n > len(evs) {
				n = len(evs)
			}
		}
	}

	// 2. property-specific shrinking, repeated until no candidate helps
	if sh, ok := p.(Shrinker); ok {
		for progress := true; progress && execs < budget; {
			progress = false
			for _, cand := range sh.Shrink(best) {
				if v := fails(cand); v != nil {
					cand.Expect = v
					best = cand
					progress = true
					break
				}
			}
		}
	}

	// 3. shorten the run to just past the failure
	if best.Expect != nil && best.Cycles > best.Expect.At+2 {
		cand := best.Clone()
		cand.Cycles = best.Expect.At + 2
		if v := fails(cand); v != nil {
			cand.Expect = v
			best = cand
		}
	}
	// 4. shrink event values toward zero
	for i := range best.Events {
		if execs >= budget {
			break
		}
		if best.Events[i].V != 0 {
			cand := best.Clone()
			cand.Events[i].V = 0
			if v := fails(cand); v != nil {
				cand.Expect = v
				best = cand
			}
		}
	}
	return best
}
