package engine

import (
	"bytes"
	"encoding/json"
	"fmt"
	"os"
	"os/exec"
	"sort"
	"strings"
)

// Digest is an FNV-1a accumulator for trace digests.
type Digest uint64

func NewDigest() Digest { return 0xcbf29ce484222325 }
func (d *Digest) Byte(b byte) {
	*d ^= Digest(b)
	*d *= 0x100000001b3
}
func (d *Digest) U16(v uint16) { d.Byte(byte(v)); d.Byte(byte(v >> 8)) }
func (d *Digest) U32(v uint32) { d.U16(uint16(v)); d.U16(uint16(v >> 16)) }
func (d *Digest) U64(v uint64) { d.U32(uint32(v)); d.U32(uint32(v >> 32)) }
func (d *Digest) Bytes(b []byte) {
	for _, x := range b {
		d.Byte(x)
	}
}
func (d *Digest) Str(s string) { d.Bytes([]byte(s)) }

// SelfTest is the determinism proof of the harness for one property: the first K scenarios
// are executed in several process layouts (1, 4 and 16 worker processes, GOMAXPROCS 1, 4
// and 16, and twice in the same layout); per-scenario trace digests and verdicts must be
// identical everywhere. Any difference is a harness fault (exit 2).
func SelfTest(p Property, seed uint64, tier, self string, maxWorkers int) int {
	k := p.Budget(tier)
	if k > 64 {
		k = 64
	}
	type layout struct{ procs, gomaxprocs int }
	layouts := []layout{{1, 1}, {1, 1}, {4, 4}, {16, 16}, {7, 1}, {3, 16}}
	var ref map[int]string
	for li, l := range layouts {
		got := map[int]string{}
		procs := l.procs
		if procs > k {
			procs = k
		}
		for w := 0; w < procs; w++ {
			args := []string{"-worker", "-digests", "-prop", p.ID(), "-tier", tier, "-seed", fmt.Sprint(seed),
				"-from", fmt.Sprint(w), "-to", fmt.Sprint(k), "-stride", fmt.Sprint(procs)}
			cmd := exec.Command(self, args...)
			cmd.Env = append(os.Environ(), fmt.Sprintf("GOMAXPROCS=%d", l.gomaxprocs))
			var out bytes.Buffer
			cmd.Stdout = &out
			cmd.Stderr = &out
			if err := cmd.Run(); err != nil {
				fmt.Printf("HARNESS-FAULT selftest %s layout %d worker %d: %v\n%s\n", p.ID(), li, w, err, tail(out.String(), 800))
				return 2
			}
			lines := strings.Split(strings.TrimSpace(out.String()), "\n")
			var s WorkerSummary
			if err := json.Unmarshal([]byte(lines[len(lines)-1]), &s); err != nil {
				fmt.Printf("HARNESS-FAULT selftest %s: bad summary: %v\n", p.ID(), err)
				return 2
			}
			viol := map[int]string{}
			for _, wv := range s.Violations {
				viol[wv.Index] = wv.V.Class
			}
			for i, d := range s.Digests {
				got[i] = fmt.Sprintf("%016x %s", d, viol[i])
			}
		}
		if ref == nil {
			ref = got
			continue
		}
		var idx []int
		for i := range ref {
			idx = append(idx, i)
		}
		sort.Ints(idx)
		for _, i := range idx {
			if ref[i] != got[i] {
				fmt.Printf("HARNESS-FAULT selftest %s: scenario %d differs between layouts 0 and %d (%+v): %q vs %q\n", p.ID(), i, li, l, ref[i], got[i])
				return 2
			}
		}
		if len(got) != len(ref) {
			fmt.Printf("HARNESS-FAULT selftest %s: layout %d produced %d digests, expected %d\n", p.ID(), li, len(got), len(ref))
			return 2
		}
	}
	zero := 0
	for _, v := range ref {
		if strings.HasPrefix(v, "0000000000000000") {
			zero++
		}
	}
	fmt.Printf("selftest property=%s scenarios=%d layouts=%d identical=true zero_digests=%d\n", p.ID(), len(ref), len(layouts), zero)
	return 0
}
