package engine

import (
	"encoding/hex"
	"encoding/json"
	"fmt"
	"os"
)

// Event is one thing the simulated outside world / scripted bus master does at a cycle
// boundary. At is the boundary index: the event is applied after machine cycle At has
// completed and before cycle At+1 starts (At = 0: before the first cycle).
type Event struct {
	At uint64 `json:"at"`
	K  string `json:"k"`           // kind, e.g. bus_w, bus_r, irq, key, cancel, close, stall ...
	A  uint16 `json:"a,omitempty"` // address / line / button
	V  uint8  `json:"v,omitempty"` // value
	N  int64  `json:"n,omitempty"` // numeric argument (length, count, ...)
	S  string `json:"s,omitempty"` // symbolic argument
}

func (e Event) String() string {
	return fmt.Sprintf("@%d %s a=%04x v=%02x n=%d %s", e.At, e.K, e.A, e.V, e.N, e.S)
}

// CartSpec describes the cartridge image put on the simulated disk.
type CartSpec struct {
	Kind            string `json:"kind"`               // rom, mbc1, mbc2, mbc3, mbc5, raw, file
	Type            uint8  `json:"type"`               // header byte 0147
	RomCode         uint8  `json:"rom_code"`           // header byte 0148
	RamCode         uint8  `json:"ram_code"`           // header byte 0149
	Program         string `json:"program,omitempty"`  // hex, placed at Entry
	Entry           uint16 `json:"entry,omitempty"`    // where Program is placed in ROM bank 0/1 (default 0150); 0100 jumps there
	RawHex          string `json:"raw_hex,omitempty"`  // kind raw: the whole image (small images only)
	RawSeed         uint64 `json:"raw_seed,omitempty"` // kind raw: image generated from this seed
	RawLen          int    `json:"raw_len,omitempty"`  //   with this length
	File            string `json:"file,omitempty"`     // kind file: path of a ROM relative to /repo/gameboy/testdata
	Missing         bool   `json:"missing,omitempty"`  // the file does not exist
	FillSeed        uint64 `json:"fill_seed,omitempty"`
	Handler         string `json:"handler,omitempty"`           // hex (at most 8 bytes) placed at every interrupt vector instead of NOP;RETI
	CollidingPages  bool   `json:"colliding_pages,omitempty"`   // two pairs of distinct pages with equal checksums (CRC-32; byte sum)
	HeaderEveryPage bool   `json:"header_every_page,omitempty"` // logo and header bytes repeated at the start of every page
	Program2        string `json:"program2,omitempty"`          // hex, placed at the window address of Entry in page Page2
	Page2           int    `json:"page2,omitempty"`
	// HandlerTag: every byte A5 of Handler is replaced by the low byte of the vector it is placed at
	HandlerTag bool `json:"handler_tag,omitempty"`
}

// Scenario is one simulated run. It is plain data, is what the seed expands to, and is the
// replay file: Execute draws nothing from any PRNG.
type Scenario struct {
	Property string            `json:"property"`
	Seed     uint64            `json:"seed"`
	Index    int               `json:"index"`
	Tier     string            `json:"tier"`
	Class    string            `json:"class,omitempty"` // scenario class within the property (generator family)
	Cart     CartSpec          `json:"cart"`
	Audio    bool              `json:"audio,omitempty"`
	Video    bool              `json:"video,omitempty"`
	Serial   bool              `json:"serial,omitempty"`
	ChanCap  int               `json:"chan_cap,omitempty"`
	Params   map[string]int64  `json:"params,omitempty"`
	Strs     map[string]string `json:"strs,omitempty"`
	Init     []Event           `json:"init,omitempty"`
	Events   []Event           `json:"events,omitempty"`
	Cycles   uint64            `json:"cycles"`
	Expect   *Violation        `json:"expect,omitempty"`
	// Prelude: scenarios of the same property executed earlier in the same process (their results are
	// ignored). Only present in replay files of violations that depend on the history of the process.
	Prelude *Prelude `json:"prelude,omitempty"`
}

// Prelude names the scenarios with indices From, From+Stride, ... (Count of them) of (Seed, Tier).
type Prelude struct {
	Seed   uint64 `json:"seed"`
	Tier   string `json:"tier"`
	From   int    `json:"from"`
	Stride int    `json:"stride"`
	Count  int    `json:"count"`
}

func (s *Scenario) P(name string, def int64) int64 {
	if v, ok := s.Params[name]; ok {
		return v
	}
	return def
}

func (s *Scenario) SetP(name string, v int64) {
	if s.Params == nil {
		s.Params = map[string]int64{}
	}
	s.Params[name] = v
}

func (s *Scenario) Str(name string) string { return s.Strs[name] }

func (s *Scenario) SetStr(name, v string) {
	if s.Strs == nil {
		s.Strs = map[string]string{}
	}
	s.Strs[name] = v
}

func (s *Scenario) Clone() *Scenario {
	c := *s
	c.Events = append([]Event(nil), s.Events...)
	c.Init = append([]Event(nil), s.Init...)
	if s.Params != nil {
		c.Params = map[string]int64{}
		for k, v := range s.Params {
			c.Params[k] = v
		}
	}
	if s.Strs != nil {
		c.Strs = map[string]string{}
		for k, v := range s.Strs {
			c.Strs[k] = v
		}
	}
	if s.Expect != nil {
		e := *s.Expect
		c.Expect = &e
	}
	return &c
}

func (s *Scenario) JSON() []byte {
	b, err := json.MarshalIndent(s, "", " ")
	if err != nil {
		panic(err)
	}
	return b
}

func LoadScenario(path string) (*Scenario, error) {
	b, err := os.ReadFile(path)
	if err != nil {
		return nil, err
	}
	var s Scenario
	if err := json.Unmarshal(b, &s); err != nil {
		return nil, err
	}
	return &s, nil
}

func Hex(b []byte) string { return hex.EncodeToString(b) }

func UnHex(s string) []byte {
	b, err := hex.DecodeString(s)
	if err != nil {
		panic("bad hex in scenario: " + err.Error())
	}
	return b
}

// Violation is what an oracle reports.
type Violation struct {
	Class  string `json:"class"`  // stable classifier, e.g. C12/div-write-in-reload-window
	At     uint64 `json:"at"`     // boundary index (or event index) at which it was seen
	Detail string `json:"detail"` // human-readable; may contain values
}

func (v *Violation) String() string {
	return fmt.Sprintf("%s at=%d %s", v.Class, v.At, v.Detail)
}

// Result of executing one scenario.
type Result struct {
	Violation *Violation     `json:"violation,omitempty"`
	Harness   string         `json:"harness,omitempty"` // harness fault (exit 2), never a violation
	Sigs      []string       `json:"sigs,omitempty"`    // non-trivial coverage signatures hit
	Faults    map[string]int `json:"faults,omitempty"`  // fault kinds that actually took effect
	Probes    map[string]int `json:"probes,omitempty"`  // rare-condition counters
	Cycles    uint64         `json:"cycles"`            // simulated machine cycles
	Digest    uint64         `json:"digest,omitempty"`  // trace digest (determinism self-test)
}

func (r *Result) Sig(s string) { r.Sigs = append(r.Sigs, s) }
func (r *Result) Fault(k string) {
	if r.Faults == nil {
		r.Faults = map[string]int{}
	}
	r.Faults[k]++
}
func (r *Result) Probe(k string) {
	if r.Probes == nil {
		r.Probes = map[string]int{}
	}
	r.Probes[k]++
}
func (r *Result) ProbeN(k string, n int) {
	if r.Probes == nil {
		r.Probes = map[string]int{}
	}
	r.Probes[k] += n
}
func (r *Result) Fail(class string, at uint64, format string, args ...interface{}) {
	if r.Violation == nil {
		r.Violation = &Violation{Class: class, At: at, Detail: fmt.Sprintf(format, args...)}
	}
}
func (r *Result) Failed() bool { return r.Violation != nil || r.Harness != "" }

// Property is implemented once per property Cnn.
type Property interface {
	ID() string
	// Budget is the number of scenarios of a tier.
	Budget(tier string) int
	// Generate expands (seed, index) to a scenario. All randomness comes from r.
	Generate(r *Rand, index int, tier string) *Scenario
	// Execute runs the scenario against the real emulator and judges it. It must be a
	// pure function of the scenario.
	Execute(sc *Scenario) *Result
	// Describe returns evidence text: rule, components, required probes.
	Describe() Info
}

// NondeterminismProperty is implemented by properties whose violations are themselves
// run-to-run differences (C24): a replay is attempted several times and a violation that was
// observed but does not reproduce is still reported.
type NondeterminismProperty interface {
	ReplayAttempts() int
}

type Info struct {
	Rule           string
	Assumptions    []string
	RequiredProbes []string // probes that must be non-zero in a batch (else exit 2)
	RealComponents []string
	StubComponents []string
	Sweeps         []string
}

var registry = map[string]Property{}
var order []string

func Register(p Property) {
	if _, dup := registry[p.ID()]; dup {
		panic("duplicate property " + p.ID())
	}
	registry[p.ID()] = p
	order = append(order, p.ID())
}

func Lookup(id string) Property { return registry[id] }
func IDs() []string             { return append([]string(nil), order...) }
