package props

import (
	"fmt"
	"strconv"

	"verifsim/engine"
)

// C22 — JOYP reflects held buttons for the selected groups.
//
// Simulated dimension (thin, stated honestly): the user as an outside party pressing and
// releasing keys at arbitrary machine cycles through the display seam (exactly what the GLFW
// callback does), interleaved with the guest's JOYP writes and reads. The state space is
// tiny; the seeded random walks reach all of it and the evidence reports how much.
type c22 struct{}

func init() { engine.Register(c22{}) }

func (c22) ID() string { return "C22" }

func (c22) Budget(tier string) int {
	if tier == "thorough" {
		return 300000
	}
	return 4000
}

func (c22) Describe() engine.Info {
	return engine.Info{
		Rule: "scenario = 50..400 events over {key down/up for each of the 8 keys (delivered through the simulated display), JOYP write of any value, JOYP read} 0..200 cycles apart. Oracle: reference joypad (bits 6-7 read 1, bits 4-5 as last written, low nibble = AND of the selected groups' lines, all 1s when none is selected, pressing a direction releases its opposite). Signature = reached controller state (select bits, direction lines, button lines): the reachable space has 4 x 9 x 16 = 576 states." +
			" A third of the walks also start DMA transfers and switch LCD, sound and timer while JOYP is polled. Class walk-storm: between two reads, the same key reported down 255..1024 or 65535..131072 times then released, or that many events in all (one visible change, then presses/releases of another key and select rewrites). Class sgb-probe: Super Game Boy command packets clocked out through the select lines, then polls with neither group selected.",
		Assumptions:    []string{"breadth-first enumeration named in the quantifier is model checking; random walks are used instead and the number of distinct states reached is reported", "the joypad interrupt is never raised by this emulator and is not part of the statement"},
		RequiredProbes: []string{"both_groups_selected_read", "opposite_direction_pressed", "no_group_selected_read", "dma_started_during_the_walk", "more_than_16_key_events_between_reads", "storm_of_65536_events_between_reads", "read_after_a_minute_of_holding"},
		RealComponents: realComponents, StubComponents: stubComponents,
	}
}

func (c22) Generate(r *engine.Rand, index int, tier string) *engine.Scenario {
	sc := &engine.Scenario{Cart: simpleRom(), Class: "walk", Video: true}
	if index == 7 || (tier == "thorough" && index%500 == 7) {
		// a key held for more than a minute of emulated time with nothing else happening, polled rarely
		sc.Class = "long-hold"
		sc.Events = append(sc.Events, engine.Event{At: 10, K: "bus_w", A: 0xff00, V: 0x00}) // both groups selected: every held key shows
		sc.Events = append(sc.Events, engine.Event{At: 20, K: "key", A: uint16(r.Intn(8)), V: 1})
		sc.Events = append(sc.Events, engine.Event{At: 30, K: "key", A: uint16(r.Intn(8)), V: 1})
		for at := uint64(1 << 20); at < 70<<20; at += 1 << 22 {
			sc.Events = append(sc.Events, engine.Event{At: at + uint64(r.Intn(1000)), K: "bus_r", A: 0xff00})
		}
		sc.Cycles = 70<<20 + 16
		return sc
	}
	if index%50 == 17 {
		// what many cartridges do at start-up: a Super Game Boy command packet is clocked out through the
		// two select lines (reset pulse, 128 bits as 10/20 pulses with 30 in between, stop bit), then the
		// pad is polled with neither group selected. A DMG has no such multiplexer: JOYP reads as always
		sc.Class = "sgb-probe"
		at := uint64(1)
		w := func(v uint8) {
			sc.Events = append(sc.Events, engine.Event{At: at, K: "bus_w", A: 0xff00, V: v})
			at += uint64(r.Range(1, 6))
		}
		for p, np := 0, r.Range(1, 3); p < np; p++ {
			pkt := make([]byte, 16)
			pkt[0] = engine.Pick(r, []uint8{0x89, 0x89, 0x89, 0x51, 0xb9, r.Byte()}) // MLT_REQ and others
			pkt[1] = engine.Pick(r, []uint8{0x01, 0x03, 0x00, r.Byte()})
			for i := 2; i < 16; i++ {
				if r.Chance(1, 4) {
					pkt[i] = r.Byte()
				}
			}
			w(0x00)
			w(0x30)
			for _, b := range pkt {
				for i := 0; i < 8; i++ {
					if b>>uint(i)&1 != 0 {
						w(0x10)
					} else {
						w(0x20)
					}
					w(0x30)
				}
			}
			w(0x20)
			w(0x30)
			at += uint64(r.Range(1, 70000))
			for i, n := 0, r.Range(2, 10); i < n; i++ {
				sc.Events = append(sc.Events, engine.Event{At: at, K: "bus_r", A: 0xff00})
				at++
				if r.Bool() {
					sc.Events = append(sc.Events, engine.Event{At: at, K: "key", A: uint16(r.Intn(8)), V: uint8(r.Intn(2))})
					at++
				}
				w(engine.Pick(r, []uint8{0x10, 0x20}))
				w(0x30)
			}
		}
		sc.Cycles = at + 4
		return sc
	}
	burst := index%4 == 2 // key events come in bursts and JOYP is only looked at by explicit reads
	if burst {
		sc.Class = "walk-bursts"
		sc.SetP("sparse", 1)
	}
	at := uint64(1)
	for i, n := 0, r.Range(50, 400); i < n; i++ {
		at += uint64(r.Intn(5))
		if r.Chance(1, 10) {
			at += uint64(r.Intn(200))
		}
		switch k := r.Intn(10); {
		case k < 5:
			sc.Events = append(sc.Events, engine.Event{At: at, K: "key", A: uint16(r.Intn(8)), V: uint8(r.Intn(3))/2 ^ 1})
		case k < 7:
			v := r.Byte()
			if r.Bool() {
				v = uint8(r.Intn(4)) << 4
			}
			sc.Events = append(sc.Events, engine.Event{At: at, K: "bus_w", A: 0xff00, V: v})
		default:
			sc.Events = append(sc.Events, engine.Event{At: at, K: "bus_r", A: 0xff00})
		}
		if burst && r.Chance(1, 8) {
			for j, k := 0, r.Range(12, 70); j < k; j++ {
				at += uint64(r.Intn(3))
				sc.Events = append(sc.Events, engine.Event{At: at, K: "key", A: uint16(r.Intn(8)), V: uint8(r.Intn(2))})
			}
		}
		if index%16 == 10 && r.Chance(1, 40) {
			// a storm between two reads: a key's auto-repeat (the same key reported down N times, then
			// released) or N events in all (one key change that shows, then presses and releases of
			// another key and rewrites of the select bits), N around the powers of two at which counters wrap
			n := engine.Pick(r, []int{255, 256, 257, 511, 512, 513, 1024})
			if r.Chance(1, 3) {
				n = engine.Pick(r, []int{65535, 65536, 65537, 131072})
			}
			sc.Class = "walk-storm"
			sc.SetP("sparse", 1)
			at++
			sc.Events = append(sc.Events, engine.Event{At: at, K: "bus_r", A: 0xff00})
			at++
			sc.Events = append(sc.Events, engine.Event{At: at, K: "storm", A: uint16(r.Intn(8)), V: uint8(r.Intn(2)), S: fmt.Sprint(n)})
			at++
			sc.Events = append(sc.Events, engine.Event{At: at, K: "bus_r", A: 0xff00})
		}
		if index%3 == 1 && r.Chance(1, 12) {
			// the rest of the machine is busy: an OAM DMA transfer in flight, the LCD or the sound unit
			// switched, the timer reprogrammed - JOYP reflects the keys and the select bits regardless
			at++
			x := engine.Pick(r, [][2]int{{0xff46, 0xc0}, {0xff46, 0x40}, {0xff46, 0xfe}, {0xff40, 0x91}, {0xff40, 0x00}, {0xff26, 0x80}, {0xff07, 0x05}, {0xff46, 0x80}})
			sc.Events = append(sc.Events, engine.Event{At: at, K: "bus_w", A: uint16(x[0]), V: uint8(x[1]), S: "other"})
		}
	}
	sc.Cycles = at + 4
	return sc
}

// dirsBtnsDown reports whether key b is held according to the reference lines (0 = held).
func dirsBtnsDown(dirs, btns uint8, b int) bool {
	bit := []uint8{0x04, 0x08, 0x02, 0x01, 0x01, 0x02, 0x08, 0x04}[b]
	if b < 4 {
		return dirs&bit == 0
	}
	return btns&bit == 0
}

func (c22) Execute(sc *engine.Scenario) *engine.Result {
	res := &engine.Result{}
	m := build(sc, res)
	if m == nil {
		return res
	}
	m.Write(0xff40, 0)
	m.Park()
	// reference: 1 = released
	dirs, btns, sel := uint8(0x0f), uint8(0x0f), uint8(0x00)
	written := false
	dg := engine.NewDigest()
	// controller.Button order: Up, Down, Left, Right, A, B, Start, Select
	press := func(b int, down bool) {
		type ln struct {
			dir bool
			bit uint8
			opp uint8
		}
		tbl := []ln{{true, 0x04, 0x08}, {true, 0x08, 0x04}, {true, 0x02, 0x01}, {true, 0x01, 0x02}, {false, 0x01, 0}, {false, 0x02, 0}, {false, 0x08, 0}, {false, 0x04, 0}}
		l := tbl[b]
		if l.dir {
			if down {
				if dirs&l.opp == 0 {
					res.Probe("opposite_direction_pressed")
				}
				dirs &^= l.bit
				dirs |= l.opp
			} else {
				dirs |= l.bit
			}
		} else {
			if down {
				btns &^= l.bit
			} else {
				btns |= l.bit
			}
		}
	}
	expect := func() uint8 {
		low := uint8(0x0f)
		if sel&0x10 == 0 {
			low &= dirs
		}
		if sel&0x20 == 0 {
			low &= btns
		}
		return 0xc0 | sel&0x30 | low
	}
	check := func(what string) bool {
		if !written {
			return true // the power-on select value is not part of the statement
		}
		got := m.Read(0xff00)
		dg.Byte(got)
		want := expect()
		switch sel & 0x30 {
		case 0x00:
			res.Probe("both_groups_selected_read")
		case 0x30:
			res.Probe("no_group_selected_read")
		}
		if got != want {
			cls := map[uint8]string{0x00: "both-groups-selected", 0x10: "buttons-selected", 0x20: "directions-selected", 0x30: "none-selected"}[sel&0x30]
			res.Fail("C22/"+cls, m.N, "JOYP reads %02x, expected %02x (last written %02x; direction lines %x, button lines %x; after %s)", got, want, sel, dirs, btns, what)
			return false
		}
		res.Sig(fmt.Sprintf("state/%x/%x/%x", sel>>4&3, dirs, btns))
		return true
	}
	ei := 0
	ok := true
	sinceRead := 0
	for m.N < sc.Cycles && ok {
		for ei < len(sc.Events) && sc.Events[ei].At <= m.N && ok {
			ev := sc.Events[ei]
			ei++
			switch ev.K {
			case "key":
				m.Key(controllerButton(int(ev.A)), ev.V != 0)
				press(int(ev.A&7), ev.V != 0)
				res.Fault("key_event")
				if sc.P("sparse", 0) == 0 && sc.Class != "long-hold" {
					ok = check(fmt.Sprintf("key %d down=%v", ev.A, ev.V != 0))
				} else {
					sinceRead++
					if sinceRead > 16 {
						res.Probe("more_than_16_key_events_between_reads")
					}
				}
			case "storm":
				n, _ := strconv.Atoi(ev.S)
				if n > 1<<18 {
					n = 1 << 18
				}
				key := int(ev.A & 7)
				res.Fault("key_storm")
				if n >= 65536 {
					res.Probe("storm_of_65536_events_between_reads")
				}
				if ev.V == 0 {
					// auto-repeat: N presses of one key, then its release
					for i := 0; i < n; i++ {
						m.Key(controllerButton(key), true)
						press(key, true)
					}
					m.Key(controllerButton(key), false)
					press(key, false)
				} else {
					// N events in all, the first of which changes what JOYP shows
					down := dirsBtnsDown(dirs, btns, key)
					m.Key(controllerButton(key), !down)
					press(key, !down)
					other := (key + 1 + n%3) & 7
					for i := 1; i < n; i++ {
						switch i % 3 {
						case 0:
							m.Write(0xff00, sel)
						case 1:
							m.Key(controllerButton(other), true)
							press(other, true)
						default:
							m.Key(controllerButton(other), false)
							press(other, false)
						}
					}
				}
				sinceRead += n
			case "bus_w":
				if ev.A != 0xff00 {
					m.Write(ev.A, ev.V)
					res.Fault("other_unit_write")
					if ev.A == 0xff46 {
						res.Probe("dma_started_during_the_walk")
					}
					continue
				}
				m.Write(0xff00, ev.V)
				sel = ev.V
				written = true
				res.Fault("joyp_write")
				ok = check("JOYP write")
			case "bus_r":
				sinceRead = 0
				if m.N > 1<<26 {
					res.Probe("read_after_a_minute_of_holding")
				}
				ok = check("read")
			}
		}
		if !ok {
			break
		}
		next := sc.Cycles
		if ei < len(sc.Events) && sc.Events[ei].At < next {
			next = sc.Events[ei].At
		}
		if next <= m.N {
			next = m.N + 1
		}
		m.RunCycles(next - m.N)
	}
	res.Cycles = m.N
	res.Digest = uint64(dg)
	return res
}
