package props

import (
	"fmt"

	"verifsim/engine"
	"verifsim/machine"
)

// C11 — no cartridge image or guest program can crash the emulator.
//
// Simulated dimension: storage faults at load (the ROM file is whatever the simulated disk
// holds: short, odd-sized, random, header and size disagreeing, every cart type byte) and
// hostile guests over time (random bytes as code, generated programs, random interrupt lines
// and key events) on whatever instance construction yields. A panic during construction is
// allowed; afterwards any panic whose origin is emulator code is a violation. The run may end
// only by budget or by the deliberate stop at an undefined opcode (peeked ahead of execution,
// because the emulator exits the process there).
type c11 struct{}

func init() { engine.Register(c11{}) }

func (c11) ID() string { return "C11" }

// ProcessExitClass: the emulator ending the process is a violation of C11 (the harness stops a run
// before an undefined opcode would execute, so no legitimate exit can occur).
func (c11) ProcessExitClass() string { return "C11/process-exit" }

func (c11) Budget(tier string) int {
	if tier == "thorough" {
		return 400000
	}
	return 23000
}

func (c11) Describe() engine.Info {
	return engine.Info{
		Rule: "class image: file length 0..0x150 / non-multiple of 16 KiB / random bytes / declared size != actual / missing file; class header: every cart type byte 00-FF x ROM size code x RAM size code with a consistent image (index-enumerated); for every image that constructs: class single writes every value 00-FF to an address of every control region and reads every window after each; class history random multi-step write/read sequences anywhere in 0000-FFFF; class code runs random bytes / generated programs for 2k-50k cycles with random interrupt lines and key events. " +
			"Oracle: no panic from emulator frames after construction. Signature = (class, cart type, construction outcome, how the run ended). One image in three repeats logo and header at the start of every page (multi-game cartridges). Class image also takes dumps trimmed by 1..0x4001 bytes for the controller families that use the image as it is.",
		Assumptions:    []string{"a panic during gameboy.New is a legitimate construction failure", "an io.Writer error on the serial port makes the emulator panic by design and is not injected"},
		RequiredProbes: []string{"construction_failed", "construction_ok", "deliberate_stop_undefined_opcode", "ran_to_budget", "single_write_sweep"},
		RealComponents: realComponents, StubComponents: stubComponents,
		Sweeps: []string{"cart type byte x ROM code x RAM code (class header)", "every value to every control region, single write (class single)"},
	}
}

func (c11) Generate(r *engine.Rand, index int, tier string) *engine.Scenario {
	sc := &engine.Scenario{}
	sc.SetP("wseed", int64(r.U64()>>1))
	switch index % 4 {
	case 0: // storage faults
		sc.Class = "image"
		spec := engine.CartSpec{Kind: "raw", RawSeed: r.U64(), Type: r.Byte(), RomCode: r.Byte(), RamCode: r.Byte()}
		switch r.Intn(8) {
		case 7:
			// a dump with its tail trimmed: a few bytes to a whole page short of what the header declares,
			// for the controller families that take the image as it is
			spec.RomCode = uint8(r.Intn(3))
			spec.Type = engine.Pick(r, []uint8{0x00, 0x00, 0x00, 0x01, 0x08, 0x09, 0x11, 0x19})
			spec.RawLen = (0x8000 << uint(spec.RomCode)) - engine.Pick(r, []int{1, 2, 4, 16, 0x100, 0x1000, 0x3fff, 0x4000, 0x4001})
		case 0:
			spec.RawLen = r.Intn(0x151)
		case 1:
			spec.RawLen = []int{0x147, 0x148, 0x149, 0x14a, 0x14f, 0x150, 0x151}[r.Intn(7)]
		case 2:
			spec.RawLen = r.Range(0x151, 0x10000)
		case 3:
			spec.RawLen = 0x4000 * r.Range(1, 9)
			spec.RomCode = uint8(r.Intn(9))
		case 4:
			spec.RawLen = 0x8000 << uint(r.Intn(4))
			spec.RomCode = uint8(r.Intn(5))
			spec.Type = []uint8{0, 1, 3, 5, 6, 0x0f, 0x10, 0x11, 0x13, 0x19, 0x1b, 0x1e}[r.Intn(12)]
		case 5:
			spec.Missing = true
		default:
			spec.RawLen = 0x8000
			spec.RomCode = 0
		}
		sc.Cart = spec
		sc.SetStr("then", []string{"single", "history", "code"}[r.Intn(3)])
	case 1: // header sweep
		sc.Class = "header"
		k := index / 4
		typ := uint8(k)
		rc := uint8((k / 256) % 9)
		if rc >= 6 && tier != "thorough" && (k/256/9)%3 != 0 {
			rc = uint8(r.Intn(5))
		}
		sc.Cart = engine.CartSpec{Kind: "rom", Type: typ, RomCode: rc, RamCode: uint8(r.Intn(8)), Program: "18fe", FillSeed: r.U64()}
		sc.SetStr("then", []string{"single", "history", "code"}[r.Intn(3)])
	case 2:
		sc.Class = "single"
		w := randomWorkload(r)
		cfg := allCartConfigs[(index/4)%len(allCartConfigs)]
		if cfg.romCode > 5 && tier != "thorough" {
			cfg.romCode = uint8(r.Intn(5))
		}
		sc.Cart = engine.CartSpec{Kind: cfg.kind, Type: cfg.typ, RomCode: cfg.romCode, RamCode: cfg.ramCode, Program: "18fe", FillSeed: r.U64()}
		_ = w
		sc.SetStr("then", "single")
		sc.SetP("region", int64(index/4/len(allCartConfigs)%5))
	default:
		if index%8 == 7 {
			sc.Class = "iostorm"
			sc.Cart = simpleRom()
			sc.SetStr("then", "iostorm")
			sc.Audio = r.Chance(1, 2)
			sc.Cycles = 1
			return sc
		}
		sc.Class = "code"
		cfg := allCartConfigs[r.Intn(len(allCartConfigs))]
		if cfg.romCode > 4 {
			cfg.romCode = uint8(r.Intn(5))
		}
		sc.Cart = engine.CartSpec{Kind: cfg.kind, Type: cfg.typ, RomCode: cfg.romCode, RamCode: cfg.ramCode, Program: "18fe", FillSeed: r.U64()}
		sc.SetStr("then", "code")
		sc.Audio = r.Chance(1, 3)
		sc.Video = r.Chance(1, 3)
	}
	if sc.Cart.Kind != "raw" && r.Chance(1, 3) {
		sc.Cart.HeaderEveryPage = true // like a multi-game cartridge: logo and header repeated in every page
	}
	sc.Cycles = uint64(r.Range(2000, 50000))
	for i, n := 0, r.Intn(8); i < n; i++ {
		if r.Bool() {
			sc.Events = append(sc.Events, engine.Event{At: uint64(r.Intn(int(sc.Cycles))), K: "irq", A: uint16(r.Intn(5))})
		} else {
			sc.Events = append(sc.Events, engine.Event{At: uint64(r.Intn(int(sc.Cycles))), K: "key", A: uint16(r.Intn(8)), V: uint8(r.Intn(2))})
		}
	}
	sortEvents(sc.Events)
	return sc
}

func (c11) Execute(sc *engine.Scenario) *engine.Result {
	res := &engine.Result{}
	img, err := cartBuild(sc.Cart)
	if err != nil {
		res.Harness = err.Error()
		return res
	}
	m, pi := machine.New(img, sc.Cart.Missing, machine.Options{Audio: sc.Audio, Video: sc.Video, Serial: true})
	typ := "none"
	if len(img) > 0x147 {
		typ = fmt.Sprintf("%02x", img[0x147])
	}
	if pi != nil {
		if !pi.Emulator && pi.Site != "" && !containsStd(pi.Stack) {
			res.Harness = "construction: harness panic: " + pi.Value + "\n" + pi.Stack
			return res
		}
		res.Probe("construction_failed")
		res.Sig(fmt.Sprintf("%s/type=%s/construction-failed", sc.Class, typ))
		return res
	}
	res.Probe("construction_ok")
	m.GuardUndefined = true
	r := engine.NewRand(uint64(sc.P("wseed", 1)))
	then := sc.Str("then")
	ended := "budget"
	pi = machine.Protect(func() {
		if then == "single" || then == "iostorm" || then == "history" {
			// A guest's first bus access other than an opcode fetch is in its second machine
			// cycle at the earliest, after every component has been clocked once; the state
			// before the first cycle is not an injection point a guest can reach (the thorough
			// tier found an OAM write injected there that crashes on the PPU's not yet
			// initialised scan position - a false alarm of this harness).
			m.Park()
			m.RunCycles(1)
		}
		switch then {
		case "single":
			m.Park()
			// every value to one address of each control region (and the RAM window), reading all windows after each
			regions := []uint16{0x0000, 0x2000, 0x4000, 0x6000, 0xa000}
			reg := int(sc.P("region", -1))
			for ri, base := range regions {
				if reg >= 0 && ri != reg {
					continue
				}
				a := base + uint16(r.Intn(0x2000))
				if ri == 0 && r.Bool() {
					a |= 0x0100
				}
				for v := 0; v < 256; v++ {
					m.Write(a, uint8(v))
					for _, ra := range []uint16{0x0000, 0x3fff, 0x4000, 0x7fff, 0xa000, 0xbfff, 0x4000 + uint16(r.Intn(0x4000)), 0xa000 + uint16(r.Intn(0x2000))} {
						_ = m.Read(ra)
					}
					m.Write(0xa000+uint16(r.Intn(0x2000)), uint8(v))
					if v%16 == 0 {
						m.RunCycles(1)
					}
				}
				res.Probe("single_write_sweep")
			}
			_ = m.Map.DumpRAM()
		case "iostorm":
			// a hostile guest hammering the I/O registers at arbitrary cycles (sound triggers,
			// LCD control, DMA, timer), biased to high frequencies and retriggers
			m.Park()
			hot := []uint16{0xff14, 0xff19, 0xff1e, 0xff23, 0xff1a, 0xff1c, 0xff1d, 0xff26, 0xff40, 0xff46, 0xff07, 0xff04}
			for i := 0; i < 1500; i++ {
				a := uint16(0xff00 + r.Intn(0x80))
				v := r.Byte()
				switch r.Intn(4) {
				case 0:
					a = engine.Pick(r, hot)
					if a == 0xff1e || a == 0xff14 || a == 0xff19 || a == 0xff23 {
						v |= 0x80
						if r.Bool() {
							v |= 0x07
						}
					}
					if a == 0xff46 {
						v = uint8(r.Intn(0xf2))
					}
				case 1:
					a = 0xff30 + uint16(r.Intn(16))
				case 2:
					a = 0xff10 + uint16(r.Intn(0x17))
					if r.Bool() {
						v = 0xff
					}
				}
				m.Write(a, v)
				if r.Chance(1, 3) {
					_ = m.Read(uint16(0xff00 + r.Intn(0x80)))
				}
				if m.Spk != nil {
					drainSpeakers(m)
				}
				m.RunCycles(uint64(r.Range(1, 24)))
			}
		case "history":
			m.Park()
			for i := 0; i < 400; i++ {
				var a uint16
				switch r.Intn(4) {
				case 0:
					a = uint16(r.Intn(0x8000))
				case 1:
					a = 0xa000 + uint16(r.Intn(0x2000))
				case 2:
					a = 0xff00 + uint16(r.Intn(0x100))
				default:
					a = r.U16()
				}
				if a == 0xfffc || a == 0xfffd {
					continue // the parked CPU's loop
				}
				if r.Bool() {
					m.Write(a, r.EdgeByte())
				} else {
					_ = m.Read(a)
				}
				if r.Chance(1, 3) {
					m.RunCycles(uint64(r.Range(1, 200)))
				}
			}
			_ = m.Map.DumpRAM()
		default: // code
			kind := r.Intn(4)
			switch kind {
			case 3:
				// corners of defined behaviour: STOP in every joypad select state (a key event resumes),
				// interrupt dispatch with the stack pointer on IE, on IF or wrapping round the address space
				g := &progGen{r: r, base: lsCodeWRAM}
				g.emit16(0x31, 0xdff0)
				for i, n := 0, r.Range(2, 10); i < n; i++ {
					switch r.Intn(3) {
					case 0:
						g.emit(0x3e, engine.Pick(r, []uint8{0x00, 0x10, 0x20, 0x30, r.Byte()}), 0xe0, 0x00)
						g.emit(0x10, 0x00)
						g.filler(r.Intn(4))
					case 1:
						g.emit16(0x31, engine.Pick(r, []uint16{0x0000, 0x0001, 0x0002, 0xff10, 0xff11, 0xff0f, 0xffff, 0xfffe, 0x8001, 0xfe01, 0xa001}))
						g.emit(0x3e, 0x1f, 0xe0, 0xff)
						g.emit(0x3e, r.Byte()&0x1f|1, 0xe0, 0x0f)
						g.emit(0xfb)
						g.filler(r.Range(1, 4))
						g.emit16(0x31, 0xdff0)
					default:
						g.emit(0x3e, r.Byte(), 0xe0, engine.Pick(r, []uint8{0x00, 0x0f, 0xff, 0x40, 0x41, 0x07}))
						g.emit(engine.Pick(r, []uint8{0x76, 0x00, 0xfb, 0xf3}))
					}
				}
				g.emit16(0xc3, lsCodeWRAM+3)
				for i, b := range g.code {
					m.Write(lsCodeWRAM+uint16(i), b)
				}
				res.Probe("corner_program")
			case 0:
				code := r.Bytes(0x2000)
				for i, b := range code {
					m.Write(0xc000+uint16(i), b)
				}
			case 1:
				g := &progGen{r: r, base: lsCodeWRAM}
				g.emitStackSetup()
				g.emit(0x3e, 0x0a, 0xea, 0x00, 0x00)
				for i, n := 0, r.Range(10, 120); i < n; i++ {
					switch r.Intn(6) {
					case 0: // wild pointer
						g.emit16(engine.Pick(r, []uint8{0x01, 0x11, 0x21}), r.EdgeU16())
						g.emit(engine.Pick(r, []uint8{0x02, 0x0a, 0x12, 0x1a, 0x77, 0x7e, 0x34, 0x35, 0x36, 0x22, 0x2a}))
					case 1: // cartridge control write
						g.emit(0x3e, r.EdgeByte())
						g.emit16(0xea, uint16(r.Intn(0x8000)))
					case 2:
						g.emit(0x3e, r.Byte(), 0xe0, r.Byte())
					default:
						g.emitUnit(engine.Pick(r, lockstepOps), false, true)
					}
				}
				g.emit16(0xc3, lsCodeWRAM+3)
				for i, b := range g.code {
					m.Write(lsCodeWRAM+uint16(i), b)
				}
			default:
				// mostly valid code with random operands: bytes drawn from the defined opcodes
				for i := 0; i < 0x2000; i++ {
					b := engine.Pick(r, lockstepOps)
					if r.Chance(1, 3) {
						b = r.Byte()
					}
					m.Write(0xc000+uint16(i), b)
				}
			}
			rg := m.CPU.VerifGetRegs()
			rg.PC, rg.SP = 0xc000, 0xdff0
			m.CPU.VerifSetRegs(rg)
			ei := 0
			m.OnCycle = func() {
				for ei < len(sc.Events) && sc.Events[ei].At <= m.N {
					ev := sc.Events[ei]
					ei++
					switch ev.K {
					case "irq":
						m.RaiseIRQ(int(ev.A))
						res.Fault("irq_line")
					case "key":
						m.Key(controllerButton(int(ev.A)), ev.V != 0)
						res.Fault("key")
					}
				}
				if m.Spk != nil {
					drainSpeakers(m)
				}
			}
			m.RunCycles(sc.Cycles)
			if m.StoppedOnUndefined {
				ended = "undefined-opcode"
				res.Probe("deliberate_stop_undefined_opcode")
			}
		}
	})
	res.Cycles = m.N
	if pi != nil {
		if !pi.Emulator {
			res.Harness = "harness panic: " + pi.Value + "\n" + pi.Stack
			return res
		}
		res.Fail("C11/panic/"+pi.Site, m.N, "emulator panicked after successful construction (cart type %s, rom code %d, ram code %d, %d byte image): %s", typ, headerByte(img, 0x148), headerByte(img, 0x149), len(img), pi.Value)
		return res
	}
	if ended == "budget" {
		res.Probe("ran_to_budget")
	}
	{
		dg := engine.NewDigest()
		rg := m.CPU.VerifGetRegs()
		dg.Bytes([]byte{rg.A, rg.F, rg.B, rg.C, rg.D, rg.E, rg.H, rg.L})
		dg.U16(rg.PC)
		dg.U16(rg.SP)
		dg.U64(m.N)
		dg.Byte(m.Tim.ReadDIV())
		dg.Byte(m.IRQ.ReadIF())
		res.Digest = uint64(dg)
	}
	res.Sig(fmt.Sprintf("%s/type=%s/then=%s/%s", sc.Class, typ, then, ended))
	if m.Spk != nil {
		m.GB.Cleanup()
	}
	return res
}

func headerByte(img []byte, i int) int {
	if len(img) > i {
		return int(img[i])
	}
	return -1
}

func containsStd(stack string) bool { return true }

func drainSpeakers(m *machine.Machine) {
	for {
		select {
		case <-m.Spk.Left():
			continue
		default:
		}
		select {
		case <-m.Spk.Right():
			continue
		default:
		}
		return
	}
}
