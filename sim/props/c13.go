package props

import (
	"fmt"
	"verifsim/machine"

	"verifsim/dmgref"
	"verifsim/engine"
)

// C13 — LCD line and mode timing follow the frame schedule.
//
// Simulated dimension: the guest switching the LCD off and on at arbitrary machine cycles
// (uniform and placed at every mode boundary +-1), plus writes to LY/STAT/LYC/scroll
// registers that must not disturb the schedule, over several frames. After every cycle LY
// and the STAT mode bits are read over the bus and compared with the reference counter.
type c13 struct{}

func init() { engine.Register(c13{}) }

func (c13) PostGenerate(r *engine.Rand, sc *engine.Scenario) {
	chooseEnv(r, sc)
	if r.Chance(1, 3) {
		addOtherUnitEvents(r, sc, exclVideo)
	}
}

func (c13) ID() string { return "C13" }

func (c13) Budget(tier string) int {
	if tier == "thorough" {
		return 300000
	}
	return 5600
}

func (c13) Describe() engine.Info {
	return engine.Info{
		Rule: "scenario = 1..3 frames with 0..8 LCDC writes (bit 7 toggled or kept; other bits random) at uniformly random cycles or placed by the reference counter at a mode boundary -1/0/+1 of a random line, plus 0..6 noise writes to FF44/FF41/FF45/FF42/FF43/FF4A/FF4B. Class sweep: the LCD is switched off at every cycle offset of a line (index selects line and offset) and on again after a random pause. " +
			"Oracle: LY and STAT mode after every machine cycle equal the reference line/mode counter (first line 112 cycles, then 114; modes 2/3/0 = 20/41/53; 10 lines of mode 1; off => LY 0, mode 0 at once). Signature = (event kind, reference mode at the event, line class, position class)." +
			" Half of the random scenarios add video noise (objects on most lines, scroll/window/palette writes placed around mode boundaries, LCDC rewrites keeping bit 7 - also inside the shortened first line). Environment dimensions as C12. Class long-on: LCD on for 257..262 frames without a restart; class ly-store: stores to LY within two cycles of the start of lines 0,1,2,143,144,145,152,153 with the LCD on throughout (also mixed into the noise). Noise also rewrites LCDC (LCD left on) within the first line after every switch-on and at power-on. Class short-power-cycles: the LCD on for 1..130 cycles (mostly 56..66), off and on again, several times over.",
		Assumptions:    []string{"a write at boundary b is the guest write in cycle b+1", "mode 3 length is the fixed 41 cycles of the statement"},
		RequiredProbes: []string{"lcd_off_in_mode2", "lcd_off_in_mode3", "lcd_off_in_mode0", "lcd_off_in_mode1", "lcd_on", "ly_write_while_on", "lcdc_rewritten_on_during_a_line_0", "frame_wrap"},
		RealComponents: realComponents, StubComponents: stubComponents,
		Sweeps: []string{"LCD off at each of the 114 cycle offsets of a line (class sweep, lines sampled)"},
	}
}

// genPPUEvents produces LCDC toggles and noise writes; shared with C14 and C17.
func genPPUEvents(r *engine.Rand, sc *engine.Scenario, total uint64, toggles, noise int, placed bool) {
	var ref dmgref.PPUTiming
	ref.SwitchOn() // power-on state: LCD on
	type tgl struct {
		at uint64
	}
	var ats []uint64
	for i := 0; i < toggles; i++ {
		ats = append(ats, uint64(r.Intn(int(total))))
	}
	if placed && toggles > 0 {
		// place the first toggle at a mode boundary of a random line, -1/0/+1
		line := r.Intn(154)
		b := []int{0, 20, 61, 113}[r.Intn(4)]
		at := 1 + line*114 - 2 + b + r.Range(-1, 1)
		if line == 0 {
			at = 1 + b + r.Range(-1, 1)
		}
		if at < 0 {
			at = 0
		}
		ats[0] = uint64(at)
	}
	on := true
	sortU64(ats)
	for _, at := range ats {
		v := r.Byte() &^ 0x80
		if r.Chance(5, 6) {
			on = !on
		}
		if on {
			v |= 0x80
		}
		sc.Events = append(sc.Events, engine.Event{At: at, K: "bus_w", A: 0xff40, V: v})
	}
	for i := 0; i < noise; i++ {
		a := engine.Pick(r, []uint16{0xff44, 0xff41, 0xff45, 0xff42, 0xff43, 0xff4a, 0xff4b, 0xff44})
		sc.Events = append(sc.Events, engine.Event{At: uint64(r.Intn(int(total))), K: "bus_w", A: a, V: r.Byte()})
	}
	sortEvents(sc.Events)
	// at most one bus operation per boundary
	for i := 1; i < len(sc.Events); i++ {
		if sc.Events[i].At <= sc.Events[i-1].At {
			sc.Events[i].At = sc.Events[i-1].At + 1
		}
	}
}

// genVideoNoise adds writes that the line/mode schedule and the request conditions do not depend on:
// scroll and window position, palettes, LCDC rewrites that leave bit 7 as it is, an object table
// (oam_seed: objects on most lines, installed before the run) - uniformly and placed around the mode
// boundaries of lines. extra lists further (address, value) pairs to rewrite (C14: the constant LYC).
func genVideoNoise(r *engine.Rand, sc *engine.Scenario, total uint64, n int, extra [][2]int) {
	if r.Chance(2, 3) {
		sc.SetP("oam_seed", int64(r.U64()>>1))
	}
	for i := 0; i < n; i++ {
		at := uint64(r.Intn(int(total)))
		if r.Chance(1, 2) {
			// near a mode boundary of some line (the grid of the power-on frame; later switches move it)
			line := r.Intn(154 * int(total/17556+1))
			at = uint64(1 + line*114 - 2 + engine.Pick(r, []int{0, 19, 20, 21, 58, 59, 60, 61, 62, 63, 64, 65, 70, 112, 113}))
			if at >= total {
				at = uint64(r.Intn(int(total)))
			}
		}
		ev := engine.Event{At: at, K: "bus_w"}
		switch k := r.Intn(10); {
		case k < 3:
			ev.A, ev.V = 0xff43, r.Byte() // SCX
			if r.Bool() {
				ev.V = uint8(r.Intn(8))
			}
		case k < 4:
			ev.A, ev.V = 0xff42, r.Byte()
		case k < 5:
			ev.A, ev.V = engine.Pick(r, []uint16{0xff4a, 0xff4b}), r.Byte()
		case k < 6:
			ev.A, ev.V = engine.Pick(r, []uint16{0xff47, 0xff48, 0xff49, 0xff44, 0xff44}), r.Byte() // palettes; stores to read-only LY
		case k < 8 || len(extra) == 0:
			ev.A, ev.V, ev.S = 0xff40, r.Byte(), "keep" // bit 7 is filled in from the schedule
		default:
			x := extra[r.Intn(len(extra))]
			ev.A, ev.V = uint16(x[0]), uint8(x[1])
		}
		sc.Events = append(sc.Events, ev)
	}
	{
		// LCDC rewritten (LCD left on) within the first line after the LCD came on - at power-on and after
		// every switch-on of the schedule: the shortened first line stays shortened
		var ons []uint64
		if r.Chance(1, 3) {
			ons = append(ons, 0)
		}
		was := true
		for _, e := range sc.Events {
			if e.A == 0xff40 && e.S != "keep" {
				now := e.V&0x80 != 0
				if now && !was && r.Chance(1, 2) {
					ons = append(ons, e.At)
				}
				was = now
			}
		}
		for _, t := range ons {
			if at := t + uint64(r.Range(1, 70)); at < total {
				sc.Events = append(sc.Events, engine.Event{At: at, K: "bus_w", A: 0xff40, V: r.Byte(), S: "keep"})
			}
		}
	}
	if r.Chance(1, 3) {
		for i, k := 0, r.Range(1, 3); i < k; i++ {
			if at := lineStartBoundary(r); at < total {
				sc.Events = append(sc.Events, engine.Event{At: at, K: "bus_w", A: 0xff44, V: r.Byte()})
			}
		}
	}
	sortEvents(sc.Events)
	on := true
	for i := range sc.Events {
		e := &sc.Events[i]
		if i > 0 && e.At <= sc.Events[i-1].At {
			e.At = sc.Events[i-1].At + 1
		}
		if e.A == 0xff40 {
			if e.S == "keep" {
				e.V &^= 0x80
				if on {
					e.V |= 0x80
				}
			} else {
				on = e.V&0x80 != 0
			}
		}
	}
}

// lineStartBoundary picks a boundary within two cycles of the start of one of the lines at which
// something begins, in the first or second frame after power-on (the first line of the first frame is
// two cycles short).
func lineStartBoundary(r *engine.Rand) uint64 {
	line := engine.Pick(r, []int{0, 1, 2, 143, 144, 144, 144, 145, 152, 153}) + 154*r.Intn(2)
	at := 1 + line*114 - 2 + r.Range(-2, 2)
	if at < 1 {
		at = 1
	}
	return uint64(at)
}

// installObjects fills OAM (side-effect-free poke) with objects spread over the screen.
func installObjects(m *machine.Machine, seed int64) {
	if seed == 0 {
		return
	}
	r := engine.NewRand(uint64(seed))
	var o [0xa0]byte
	for i := 0; i < 40; i++ {
		o[i*4] = uint8(r.Intn(176))
		o[i*4+1] = uint8(r.Intn(176))
		o[i*4+2] = r.Byte()
		o[i*4+3] = r.Byte()
	}
	if r.Chance(1, 4) {
		for i := 0; i < 40; i++ {
			o[i*4] = uint8(16 + r.Intn(8)) // everything on the same few lines
		}
	}
	m.OAM.VerifPoke(o)
}

func sortU64(x []uint64) {
	for i := 1; i < len(x); i++ {
		for j := i; j > 0 && x[j] < x[j-1]; j-- {
			x[j], x[j-1] = x[j-1], x[j]
		}
	}
}

func (c13) Generate(r *engine.Rand, index int, tier string) *engine.Scenario {
	sc := &engine.Scenario{Cart: simpleRom()}
	if index%3 == 2 {
		sc.Class = "sweep"
		k := index / 3
		off := k % 114
		line := (k / 114 * 37) % 154
		at := uint64(1 + off)
		if line > 0 {
			at = uint64(1 + 112 + (line-1)*114 + off)
		}
		if r.Bool() {
			at += 17556 // in the second frame (all lines 114 long)
			at += 2
		}
		sc.Events = append(sc.Events, engine.Event{At: at, K: "bus_w", A: 0xff40, V: r.Byte() &^ 0x80})
		sc.Events = append(sc.Events, engine.Event{At: at + uint64(r.Range(1, 400)), K: "bus_w", A: 0xff40, V: r.Byte() | 0x80})
		sc.Cycles = sc.Events[1].At + uint64(r.Range(200, 18000))
		return sc
	}
	if index%2800 == 77 {
		// the LCD stays on for more than 256 frames (4.3 emulated seconds) without a restart
		sc.Class = "long-on"
		sc.Cycles = 17556*uint64(r.Range(257, 262)) + uint64(r.Intn(17556))
		for i, n := 0, r.Intn(12); i < n; i++ {
			sc.Events = append(sc.Events, engine.Event{At: uint64(r.Intn(int(sc.Cycles))), K: "bus_w", A: engine.Pick(r, []uint16{0xff42, 0xff43, 0xff47, 0xff44, 0xff4a}), V: r.Byte()})
		}
		sortEvents(sc.Events)
		return sc
	}
	if index%12 == 5 {
		// power cycles shorter than a line: the LCD is switched on for a few dozen cycles (around the
		// 60th, where the first horizontal blank of the shortened line begins), off, and on again, several
		// times over: every switch-on starts a frame of its own with one line two cycles short
		sc.Class = "short-power-cycles"
		at := uint64(r.Range(1, 400))
		sc.Events = append(sc.Events, engine.Event{At: at, K: "bus_w", A: 0xff40, V: r.Byte() &^ 0x80})
		for i, n := 0, r.Range(2, 8); i < n; i++ {
			at += uint64(r.Range(1, 300))
			sc.Events = append(sc.Events, engine.Event{At: at, K: "bus_w", A: 0xff40, V: r.Byte() | 0x80})
			on := uint64(r.Range(1, 130))
			if r.Chance(2, 3) {
				on = uint64(r.Range(56, 66))
			}
			at += on
			sc.Events = append(sc.Events, engine.Event{At: at, K: "bus_w", A: 0xff40, V: r.Byte() &^ 0x80})
		}
		at += uint64(r.Range(1, 300))
		sc.Events = append(sc.Events, engine.Event{At: at, K: "bus_w", A: 0xff40, V: r.Byte() | 0x80})
		sc.Cycles = at + uint64(r.Range(200, 18000))
		return sc
	}
	if index%12 == 1 {
		// stores to the read-only LY register in the first cycles of the lines at which something begins
		// (frame start, first and last visible line, vertical blank, last line), LCD on throughout
		sc.Class = "ly-store"
		total := 2*17556 + uint64(r.Intn(3000))
		for i, n := 0, r.Range(1, 4); i < n; i++ {
			sc.Events = append(sc.Events, engine.Event{At: lineStartBoundary(r), K: "bus_w", A: 0xff44, V: r.Byte()})
		}
		sortEvents(sc.Events)
		for i := 1; i < len(sc.Events); i++ {
			if sc.Events[i].At <= sc.Events[i-1].At {
				sc.Events[i].At = sc.Events[i-1].At + 1
			}
		}
		sc.Cycles = total
		return sc
	}
	sc.Class = "random"
	total := uint64(r.Range(1, 3))*17556 + uint64(r.Intn(2000))
	genPPUEvents(r, sc, total, r.Intn(9), r.Intn(7), r.Bool())
	if index%2 == 1 {
		genVideoNoise(r, sc, total, r.Range(2, 40), nil)
	}
	sc.Cycles = total
	return sc
}

func (c13) Execute(sc *engine.Scenario) *engine.Result {
	res := &engine.Result{}
	m := build(sc, res)
	if m == nil {
		return res
	}
	park(sc, m, res)
	installObjects(m, sc.P("oam_seed", 0))
	var ref dmgref.PPUTiming
	ref.SwitchOn()
	dg := engine.NewDigest()
	check := func() bool {
		ly, st := m.Read(0xff44), m.Read(0xff41)
		dg.Byte(ly)
		dg.Byte(st)
		if ly != ref.LY() {
			res.Fail("C13/ly", m.N, "LY=%d reference=%d (reference line %d position %d, LCD on=%v)", ly, ref.LY(), ref.Line, ref.Pos, ref.On)
			return false
		}
		if st&3 != ref.Mode() {
			res.Fail(fmt.Sprintf("C13/mode/got%d-want%d", st&3, ref.Mode()), m.N, "STAT mode=%d reference=%d (reference line %d position %d, LCD on=%v)", st&3, ref.Mode(), ref.Line, ref.Pos, ref.On)
			return false
		}
		if st&0x80 == 0 {
			res.Fail("C13/stat-bit7", m.N, "STAT=%02x: bit 7 reads 0", st)
			return false
		}
		return true
	}
	// no check before the first cycle: a guest cannot look before the first video step
	ei := 0
	ok := true
	m.OnCycle = func() {
		ev := ref.Tick()
		if ev.LineStart && ref.Line == 0 {
			res.Probe("frame_wrap")
		}
		if ok && !check() {
			ok = false
			m.Stop()
		}
	}
	for m.N < sc.Cycles && ok {
		for ei < len(sc.Events) && sc.Events[ei].At <= m.N {
			ev := sc.Events[ei]
			ei++
			if applyOther(m, &ev, res) {
				continue
			}
			cls := "line>=144"
			if ref.Line < 144 {
				cls = "visible"
			}
			if ev.A == 0xff40 {
				was := ref.On
				now := ev.V&0x80 != 0
				switch {
				case was && !now:
					res.Probe(fmt.Sprintf("lcd_off_in_mode%d", ref.Mode()))
					res.Sig(fmt.Sprintf("off/mode%d/%s/pos%d", ref.Mode(), cls, ref.Pos))
					ref.SwitchOff()
				case !was && now:
					res.Probe("lcd_on")
					res.Sig("on")
					ref.SwitchOn()
				case was && now && ref.Line == 0 && ref.Pos < 112 && m.N < 17556*4:
					res.Probe("lcdc_rewritten_on_during_a_line_0")
				}
				res.Fault("lcdc_write")
			} else {
				if ev.A == 0xff44 && ref.On {
					res.Probe("ly_write_while_on")
				}
				if ref.On {
					res.Sig(fmt.Sprintf("noise-%04x/mode%d/%s", ev.A, ref.Mode(), cls))
				}
				res.Fault("noise_write")
			}
			// the write is the guest's write in the next cycle; the earliest a guest can look is
			// after that cycle's video step, i.e. at the next boundary
			m.Write(ev.A, ev.V)
		}
		if !ok {
			break
		}
		next := sc.Cycles
		if ei < len(sc.Events) && sc.Events[ei].At < next {
			next = sc.Events[ei].At
		}
		if next <= m.N {
			next = m.N + 1
		}
		m.RunCycles(next - m.N)
	}
	res.Cycles = m.N
	res.Digest = uint64(dg)
	return res
}
