package props

import "verifsim/engine"

// C09 — cartridge RAM is gated, banked and retained per controller.
//
// Simulated dimension: histories of enable/disable, bank select, mode, read and write
// operations interleaved with elapsing machine cycles. Nothing is persisted by the emulator,
// so "retained" means across gate and bank events within a run; the final cartridge RAM dump
// is compared with the model's store.
type c09 struct{}

func init() { engine.Register(c09{}) }

func (c09) PostGenerate(r *engine.Rand, sc *engine.Scenario) { chooseEnv(r, sc) }

func (c09) ID() string { return "C09" }

func (c09) Budget(tier string) int {
	if tier == "thorough" {
		return len(allCartConfigs) * 1200
	}
	return len(allCartConfigs) * 40
}

func (c09) Describe() engine.Info {
	return engine.Info{
		Rule: "scenario = cartridge configuration (as C08) + history of 30..300 operations biased to RAM: enable (xA) / disable (other values) writes, bank and mode selects incl. out-of-range bank numbers, writes and reads over the whole A000-BFFF window (edges, MBC2 mirrors, random). After every operation 4 window addresses are read back; at the end Mapper.DumpRAM is compared. " +
			"Oracle: reference RAM model (gate on low nibble A, FF when disabled, writes ignored when disabled, independent banks modulo the bank count, one 8 KiB bank when the header declares none, MBC2 512 half-bytes mirrored with the upper nibble reading 1, ROM-only window FF). Signature as C08." +
			" DMA transfers from cartridge space run while the history goes on; window writes made while an MBC3 clock register or an unmapped select is selected are performed and must leave RAM untouched; every declared RAM size code 0-5 for MBC1 and MBC3. Environment: CPU parked looping, halted or stopped. Configurations use every header type byte of a controller family (battery, rumble, timer variants), MBC3 images up to 8 MiB, one image in four repeats logo and header in every page, and one history in four looks at the windows only every 3rd..12th operation. One image in five carries distinct pages with equal CRC-32 and equal byte sums (differing in the signature bytes the checks read).",
		Assumptions:    []string{"MBC3 accesses with a clock register selected belong to C10 and are skipped here", "the low nibble of an MBC2 cell that was never written is not specified"},
		RequiredProbes: []string{"ram_write_enabled", "ram_write_disabled", "ram_bank_nonzero", "dump_compared", "dma_from_cartridge_space_in_flight", "window_write_while_clock_register_selected", "dump_compared_mid_history"},
		RealComponents: realComponents, StubComponents: stubComponents,
	}
}

func (c09) Generate(r *engine.Rand, index int, tier string) *engine.Scenario {
	sc := &engine.Scenario{Class: "history"}
	c := pickCartConfig(r, index, tier)
	genCartHistory(r, sc, c, r.Range(30, 300), true)
	return sc
}

func (c09) Execute(sc *engine.Scenario) *engine.Result { return executeCart("C09", sc, "ram") }
