package props

import (
	"fmt"

	"verifsim/dmgref"
	"verifsim/engine"
)

// C12 — the timer counts, overflows and reloads as the DMG timer.
//
// Simulated dimension: the interleaving of machine cycles with guest writes to DIV, TIMA,
// TMA and TAC. The CPU is parked; the seeded scheduler is the bus master and places each
// write at an exact cycle boundary (a write at boundary b is the guest's write in cycle
// b+1). The real frame loop runs (so IF bit 2 is set by the real runFrame), and after every
// cycle DIV/TIMA/TMA/TAC/IF are compared with the reference timer.
type c12 struct{}

func init() { engine.Register(c12{}) }

func (c12) PostGenerate(r *engine.Rand, sc *engine.Scenario) {
	chooseEnv(r, sc)
	if r.Chance(1, 3) {
		addOtherUnitEvents(r, sc, exclTimer)
	}
}

func (c12) ID() string { return "C12" }

func (c12) Budget(tier string) int {
	if tier == "thorough" {
		return 900000 + c12Triples
	}
	return 24000 + c12Triples
}

// c12Triples: register writes in three consecutive machine cycles, enumerated: 64 divider phases x
// 4 running TAC values x TAC value x TAC value x {TMA, TIMA, DIV, TAC} with TIMA = FF beforehand.
const c12Triples = 64 * 4 * 8 * 8 * 4

func (c12) Describe() engine.Info {
	return engine.Info{
		Rule: "scenario = start counter phase + timed list of DIV/TIMA/TMA/TAC writes (classes: random schedules with gaps 1..6 cycles and occasional long gaps; writes placed by the reference model at overflow-1..overflow+3; enumerated short sequences from edge/wrap phases). " +
			"Signature = (event kind, reference phase at the event {idle,pending,A,B}, signal level before, signal changed by the write, TAC select); non-trivial = an event that landed with the timer enabled or inside an overflow window." +
			" Environment dimensions: CPU parked looping/halted/stopped, DebugLCD, and in a third of the scenarios writes to other units (DMA, LCD, sound, joypad, serial) and key events at unused boundaries. Class triple (enumerated, 65,536 scenarios): TIMA=FF, then register writes in three consecutive machine cycles (TAC x TAC x {TMA, TIMA, DIV, TAC}) from each of 64 divider phases and 4 running TAC values. Guest stores to IF (timer bit clear) are placed around overflows and mixed into random schedules.",
		Assumptions: []string{
			"a write injected at boundary b is the guest's write in cycle b+1 (no party acts in between); cross-checked by the W1/W2 validity class of C26",
			"interrupt request accepted at the overflow boundary or at the reload boundary (statement: no later than the reload); a cancelled overflow may or may not request",
			"TLA+ model checking named in the quantifier is a different technique family and is not done",
		},
		RequiredProbes: []string{"guest_program_runs", "tima_write_in_cycle_A", "tima_write_in_cycle_B", "tma_write_in_cycle_B", "div_write_signal_high", "tac_write_changes_level", "overflow"},
		RealComponents: realComponents, StubComponents: stubComponents,
		Sweeps: []string{"enumerated sequences of length<=3 over 13 operations from 40 start phases (class enum), sampled by index"},
	}
}

var c12Phases = func() []uint16 {
	var ps []uint16
	for _, bit := range []uint16{3, 5, 7, 9} {
		edge := uint16(1) << (bit + 1) // counter value at which the bit falls
		for d := -3; d <= 2; d++ {
			ps = append(ps, edge+uint16(d*4))
		}
	}
	for d := -5; d <= 2; d++ {
		ps = append(ps, uint16(0x10000+d*4))
	}
	ps = append(ps, 0xabcc, 0x0000, 0x8000, 0x7ffc)
	return ps
}()

type c12op struct {
	k string
	v uint8
}

var c12Alphabet = []c12op{
	{"none", 0}, {"div", 0}, {"tima", 0x00}, {"tima", 0xff}, {"tima", 0x55}, {"tma", 0x00}, {"tma", 0xaa},
	{"tac", 0}, {"tac", 4}, {"tac", 5}, {"tac", 6}, {"tac", 7}, {"tac", 1},
}

func c12Addr(k string) uint16 {
	switch k {
	case "div":
		return 0xff04
	case "tima":
		return 0xff05
	case "tma":
		return 0xff06
	case "tac":
		return 0xff07
	case "if":
		return 0xff0f
	}
	return 0
}

func (c12) Generate(r *engine.Rand, index int, tier string) *engine.Scenario {
	sc := &engine.Scenario{Cart: simpleRom()}
	if base := (c12{}).Budget(tier) - c12Triples; index >= base {
		k := index - base
		sc.Class = "triple"
		sc.Init = []engine.Event{{K: "ctr", N: int64(k&63) * 4}}
		k >>= 6
		tac0 := uint8(4 + k&3)
		k >>= 2
		w1 := uint8(k & 7)
		k >>= 3
		w2 := uint8(k & 7)
		k >>= 3
		w := func(at uint64, name string, v uint8) {
			sc.Events = append(sc.Events, engine.Event{At: at, K: "bus_w", A: c12Addr(name), V: v, S: name})
		}
		w(0, "tma", r.EdgeByte())
		w(1, "tac", tac0)
		w(2, "tima", 0xff)
		t := uint64(3 + r.Intn(2))
		w(t, "tac", w1)
		w(t+1, "tac", w2)
		switch k & 3 {
		case 0:
			w(t+2, "tma", r.Byte())
		case 1:
			w(t+2, "tima", r.Byte())
		case 2:
			w(t+2, "div", 0)
		default:
			w(t+2, "tac", r.Byte()&7)
		}
		sc.Cycles = t + 2 + uint64(r.Range(6, 40))
		return sc
	}
	phase := engine.Pick(r, c12Phases)
	if r.Chance(1, 4) {
		phase = r.U16() &^ 3
	}
	sc.Init = []engine.Event{{K: "ctr", N: int64(phase)}}
	at := uint64(0)
	add := func(k string, v uint8) {
		if k == "none" {
			return
		}
		sc.Events = append(sc.Events, engine.Event{At: at, K: "bus_w", A: c12Addr(k), V: v, S: k})
	}
	if index%16 == 15 {
		// the same kind of schedule, performed by a guest program on the real CPU instead of the
		// scripted bus master: validates "a write at boundary b is the guest's write in cycle b+1"
		sc.Class = "guest"
		var code []byte
		cyc := uint64(0)
		n := r.Range(4, 60)
		for i := 0; i < n; i++ {
			for j, k := 0, r.Intn(7); j < k; j++ {
				code = append(code, 0x00)
				cyc++
			}
			var k string
			var v uint8
			switch op := r.Intn(10); {
			case op < 2:
				k, v = "div", r.Byte()
			case op < 5:
				k, v = "tima", uint8(0xfc+r.Intn(4))
			case op < 7:
				k, v = "tma", r.EdgeByte()
			default:
				k, v = "tac", r.Byte()&^3|1|4
				if r.Chance(1, 3) {
					v = r.Byte()
				}
			}
			code = append(code, 0x3e, v, 0xe0, uint8(c12Addr(k)))
			cyc += 2 + 3 // LD A,n ; LDH (n),A writes in its third cycle
			at = cyc - 1
			add(k, v)
		}
		code = append(code, 0x18, 0xfe)
		sc.SetStr("prog", engine.Hex(code))
		sc.Cycles = cyc + uint64(r.Range(4, 300))
		return sc
	}
	switch index % 4 {
	case 0, 1: // random schedule
		sc.Class = "random"
		n := r.Range(4, 120)
		fast := r.Chance(2, 3)
		for i := 0; i < n; i++ {
			switch g := r.Intn(20); {
			case g < 14:
				at += uint64(r.Range(1, 6))
			case g < 19:
				at += uint64(r.Range(1, 40))
			default:
				at += uint64(r.Range(1, 3000))
			}
			switch op := r.Intn(10); {
			case op < 2:
				add("div", r.Byte())
			case op < 5:
				if r.Chance(2, 3) {
					add("tima", uint8(0xfc+r.Intn(4)))
				} else {
					add("tima", r.Byte())
				}
			case op < 7:
				if r.Chance(1, 5) {
					add("if", r.Byte()&^0x04)
				} else {
					add("tma", r.EdgeByte())
				}
			default:
				t := r.Byte()
				if fast && r.Chance(2, 3) {
					t = t&^3 | 1 | 4
				}
				add("tac", t)
			}
		}
		sc.Cycles = at + uint64(r.Range(4, 300))
	case 2: // writes placed around overflows predicted by the reference model
		sc.Class = "placed"
		var ref dmgref.Timer
		ref.Reset(phase)
		sel := uint8(r.Intn(4))
		if r.Chance(2, 3) {
			sel = 1
		}
		add("tma", r.EdgeByte())
		ref.WriteTMA(sc.Events[len(sc.Events)-1].V)
		at++
		ref.Tick()
		add("tima", uint8(0xfd+r.Intn(3)))
		ref.WriteTIMA(sc.Events[len(sc.Events)-1].V)
		at++
		ref.Tick()
		add("tac", 4|sel)
		ref.WriteTAC(4 | sel)
		rounds := r.Range(1, 4)
		for round := 0; round < rounds; round++ {
			// run the model to the next overflow
			ov := ref.Overflows
			guard := 0
			for ref.Overflows == ov && guard < 400000 {
				at++
				ref.Tick()
				guard++
			}
			if ref.Overflows == ov {
				break
			}
			// `at` is the overflow boundary. Place 1-3 operations at offsets -1..+3.
			base := at
			used := map[uint64]bool{}
			for j, nops := 0, r.Range(1, 3); j < nops; j++ {
				off := uint64(r.Intn(5))
				tgt := base + off - 1
				if used[tgt] || tgt < at {
					continue
				}
				for at < tgt {
					at++
					ref.Tick()
				}
				used[tgt] = true
				switch r.Intn(6) {
				case 5:
					// the guest stores to IF (timer bit clear) in a cycle around the overflow: a request made at
					// the end of that very cycle is not wiped by it
					add("if", r.Byte()&^0x04)
				case 0:
					add("div", 0)
					ref.WriteDIV()
				case 1, 2:
					v := r.EdgeByte()
					add("tima", v)
					ref.WriteTIMA(v)
				case 3:
					v := r.EdgeByte()
					add("tma", v)
					ref.WriteTMA(v)
				default:
					v := uint8(r.Intn(8))
					add("tac", v)
					ref.WriteTAC(v)
				}
			}
			for k := 0; k < 4; k++ {
				at++
				ref.Tick()
			}
			if ref.TAC&4 == 0 {
				add("tac", 4|sel)
				ref.WriteTAC(4 | sel)
			}
			if r.Chance(1, 2) {
				at++
				ref.Tick()
				v := uint8(0xfd + r.Intn(3))
				add("tima", v)
				ref.WriteTIMA(v)
			}
		}
		sc.Cycles = at + uint64(r.Range(3, 40))
	default: // enumerated short sequences, one per scenario chunk
		sc.Class = "enum"
		// decode the index into a base sequence; the remaining choices are random
		code := index / 4
		phase = c12Phases[code%len(c12Phases)]
		code /= len(c12Phases)
		sc.Init = []engine.Event{{K: "ctr", N: int64(phase)}}
		// prefix: enable the timer in a chosen mode with TIMA near overflow
		pre := []c12op{{"tma", uint8(0x10 + code%7)}, {"tima", 0xff}, {"tac", uint8(4 + code%4)}}
		code /= 4
		for _, o := range pre {
			add(o.k, o.v)
			at++
		}
		for i := 0; i < 3; i++ {
			o := c12Alphabet[code%len(c12Alphabet)]
			code /= len(c12Alphabet)
			add(o.k, o.v)
			at++
		}
		// a random tail so that later effects are also observed
		for i, n := 0, r.Range(0, 4); i < n; i++ {
			o := engine.Pick(r, c12Alphabet)
			add(o.k, o.v)
			at += uint64(r.Range(1, 3))
		}
		sc.Cycles = at + 24
	}
	return sc
}

func (c12) Execute(sc *engine.Scenario) *engine.Result {
	res := &engine.Result{}
	m := build(sc, res)
	if m == nil {
		return res
	}
	guest := sc.Class == "guest"
	if guest {
		prog := engine.UnHex(sc.Str("prog"))
		for i, b := range prog {
			m.Write(0xc000+uint16(i), b)
		}
		rg := m.CPU.VerifGetRegs()
		rg.PC, rg.SP = 0xc000, 0xdff0
		m.CPU.VerifSetRegs(rg)
		m.IRQ.Disable()
		res.Probe("guest_program_runs")
	} else {
		park(sc, m, res)
	}
	var ref dmgref.Timer
	start := uint16(0xabcc)
	for _, e := range sc.Init {
		if e.K == "ctr" {
			start = uint16(e.N)
		}
	}
	m.Tim.VerifSetCounter(start)
	ref.Reset(start)
	m.IRQ.WriteIF(0)

	dg := engine.NewDigest()
	// taint flags for violation classification
	divInWindow := false
	writeEdge := false
	// interrupt accounting: an overflow at boundary n must be followed by exactly one
	// request observed at boundary n or n+1 (0 or 1 if the reload was cancelled)
	type ovf struct {
		at        uint64
		seen      int
		cancelled bool
	}
	var open []ovf
	lastOv := 0

	check := func(n uint64) bool {
		div, tima, tma, tac := m.Read(0xff04), m.Read(0xff05), m.Read(0xff06), m.Read(0xff07)
		iff := m.IRQ.ReadIF()
		dg.Byte(div)
		dg.Byte(tima)
		dg.Byte(tma)
		dg.Byte(tac)
		dg.Byte(iff)
		cls := func(base string) string {
			switch {
			case divInWindow:
				return "C12/div-write-in-reload-window/" + base
			case writeEdge:
				return "C12/write-edge-not-seen-at-write/" + base
			}
			return "C12/" + base
		}
		if div != ref.DIV() {
			res.Fail(cls("div"), n, "DIV=%02x reference=%02x", div, ref.DIV())
			return false
		}
		if tima != ref.TIMA {
			res.Fail(cls("tima"), n, "TIMA=%02x reference=%02x (reference phase %d)", tima, ref.TIMA, ref.Phase)
			return false
		}
		if tma != ref.TMA {
			res.Fail(cls("tma"), n, "TMA=%02x reference=%02x", tma, ref.TMA)
			return false
		}
		if tac != ref.ReadTAC() {
			res.Fail(cls("tac"), n, "TAC=%02x reference=%02x", tac, ref.ReadTAC())
			return false
		}
		if iff&0xe0 != 0xe0 {
			res.Fail("C12/if-unused-bits", n, "IF=%02x", iff)
			return false
		}
		// new overflow in the model?
		if ref.Overflows != lastOv {
			lastOv = ref.Overflows
			open = append(open, ovf{at: n})
			res.Probe("overflow")
		}
		req := iff&0x04 != 0
		if req {
			m.IRQ.ResetTimer()
			if len(open) == 0 {
				res.Fail(cls("irq-without-overflow"), n, "timer interrupt requested with no overflow outstanding")
				return false
			}
			open[len(open)-1].seen++
			if open[len(open)-1].seen > 1 {
				res.Fail(cls("irq-twice"), n, "second timer interrupt request for the overflow at boundary %d", open[len(open)-1].at)
				return false
			}
		}
		// close overflows whose reload boundary has passed
		for len(open) > 0 && n >= open[0].at+1 {
			o := open[0]
			if ref.Cancelled && len(open) == 1 {
				o.cancelled = true
			}
			if o.seen == 0 && !o.cancelled {
				res.Fail(cls("irq-missing"), n, "no timer interrupt request by the reload of the overflow at boundary %d", o.at)
				return false
			}
			open = open[1:]
		}
		return true
	}

	phaseName := func() string {
		switch {
		case ref.Phase == 1:
			return "A"
		case ref.Phase == 2:
			return "B"
		case ref.InWindow():
			return "pending"
		}
		return "idle"
	}

	ei := 0
	if !check(0) {
		return res
	}
	apply := func(ev *engine.Event) {
		if applyOther(m, ev, res) {
			return
		}
		sig := ref.TAC&4 != 0
		ph := phaseName()
		switch ev.A {
		case 0xff04:
			if ref.InWindow() {
				divInWindow = true
			}
			lvl := ref.TAC&4 != 0 && ref.Counter&[4]uint16{1 << 9, 1 << 3, 1 << 5, 1 << 7}[ref.TAC&3] != 0
			if lvl {
				res.Probe("div_write_signal_high")
			}
			ref.WriteDIV()
		case 0xff05:
			if ref.Phase == 1 {
				res.Probe("tima_write_in_cycle_A")
			}
			if ref.Phase == 2 {
				res.Probe("tima_write_in_cycle_B")
			}
			ref.WriteTIMA(ev.V)
		case 0xff06:
			if ref.Phase == 2 {
				res.Probe("tma_write_in_cycle_B")
			}
			ref.WriteTMA(ev.V)
		case 0xff07:
			ref.WriteTAC(ev.V)
			if ref.EdgeByWrite {
				res.Probe("tac_write_changes_level")
			}
		}
		if ref.EdgeByWrite {
			// the level changed at the write itself: L0 -> L1, and the next tick takes it to
			// L2. An implementation that only samples at ticks sees L0 -> L2; the number of
			// falling edges differs exactly for 1,0,1 and 0,1,0.
			l1 := ref.LevelNow()
			l0 := !l1
			l2 := ref.LevelAfterTick()
			if (l0 && !l1 && l2) || (!l0 && l1 && !l2) {
				writeEdge = true
				res.Probe("write_edge_invisible_to_tick_sampling")
			}
		}
		if !guest {
			m.Write(ev.A, ev.V)
		}
		if sig || ph != "idle" {
			res.Sig(fmt.Sprintf("%s/%s/edge=%v/sel=%d", ev.S, ph, ref.EdgeByWrite, ref.TAC&3))
		}
		res.Fault("bus_write_" + ev.S)
	}
	for m.N < sc.Cycles {
		// apply events due at the current boundary
		for ei < len(sc.Events) && sc.Events[ei].At <= m.N {
			apply(&sc.Events[ei])
			ei++
		}
		next := sc.Cycles
		if ei < len(sc.Events) && sc.Events[ei].At < next {
			next = sc.Events[ei].At
		}
		ok := true
		m.OnCycle = func() {
			ref.Tick()
			if ok && !check(m.N) {
				ok = false
				m.Stop()
			}
		}
		m.RunCycles(next - m.N)
		if !ok {
			break
		}
	}
	res.Cycles = m.N
	res.Digest = uint64(dg)
	return res
}

// Shrink proposes variants with the start phase moved to simpler values.
func (c12) Shrink(sc *engine.Scenario) []*engine.Scenario {
	var out []*engine.Scenario
	for i, e := range sc.Events {
		if e.At > 0 {
			// pull the tail of the schedule one cycle earlier
			c := sc.Clone()
			for j := i; j < len(c.Events); j++ {
				c.Events[j].At--
			}
			if i == 0 || c.Events[i].At > c.Events[i-1].At {
				out = append(out, c)
			}
		}
	}
	if len(out) > 12 {
		out = out[:12]
	}
	return out
}
