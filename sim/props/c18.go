package props

import (
	"fmt"

	"verifsim/dmgref"
	"verifsim/engine"
)

// C18 — sound registers read back through their masks and obey APU power.
//
// Simulated dimension: histories of guest writes interleaved with machine cycles while the
// sound unit runs (length counters expire, sweeps rewrite the frequency registers, channels
// switch themselves off) and power toggles at arbitrary cycles. The CPU is parked; after
// every write and after every elapsed span all registers are read back over the bus.
type c18 struct{}

func init() { engine.Register(c18{}) }

func (c18) PostGenerate(r *engine.Rand, sc *engine.Scenario) {
	chooseEnv(r, sc)
	if r.Chance(1, 3) {
		addOtherUnitEvents(r, sc, exclSound)
	}
}

func (c18) ID() string { return "C18" }

func (c18) Budget(tier string) int {
	if tier == "thorough" {
		return 120000
	}
	return 4800
}

func (c18) Describe() engine.Info {
	return engine.Info{
		Rule: "scenario = power cycle, then 40..500 operations over {write of an arbitrary value to any of FF10-FF3F (incl. the unmapped FF15, FF1F, FF27-FF2F), NR52 power off / on} 0..40 cycles apart with occasional gaps of thousands of cycles. After every operation all of NR10-NR51, NR52 and (while channel 3 is off) wave RAM are read back. " +
			"Oracle: reference register file: last accepted write | mask; power off -> every register reads its mask and NR52 reads 70 | status; writes while off ignored except NR52 and the length parts of NR11/21/31/41; NR52 bits 4-6 read 1 and bit 7 the power state (bits 0-3 are C19's); wave RAM read with channel 3 off is what was last stored there and survives power cycles. Signature = (register, power state at the write, value class, after power cycle?)." +
			" Environment dimensions as C12.",
		Assumptions:    []string{"power-on register values before the first power cycle are not part of the statement", "wave RAM is re-baselined after writes made while channel 3 plays and after a retrigger of a playing channel 3 (hardware corrupts it then)"},
		RequiredProbes: []string{"write_while_off_ignored", "length_write_while_off", "power_off", "power_on", "wave_ram_checked_after_power_cycle", "unmapped_sound_io"},
		RealComponents: realComponents, StubComponents: stubComponents,
	}
}

func (c18) Generate(r *engine.Rand, index int, tier string) *engine.Scenario {
	sc := &engine.Scenario{Cart: simpleRom(), Class: "history"}
	at := uint64(4)
	for i, n := 0, r.Range(40, 500); i < n; i++ {
		at += uint64(r.Intn(40))
		if r.Chance(1, 25) {
			at += uint64(r.Range(1000, 30000))
		}
		switch k := r.Intn(20); {
		case k == 0:
			sc.Events = append(sc.Events, engine.Event{At: at, K: "bus_w", A: 0xff26, V: r.Byte() & 0x7f})
		case k == 1 || k == 2:
			sc.Events = append(sc.Events, engine.Event{At: at, K: "bus_w", A: 0xff26, V: r.Byte() | 0x80})
		case k < 6:
			sc.Events = append(sc.Events, engine.Event{At: at, K: "bus_w", A: 0xff30 + uint16(r.Intn(16)), V: r.Byte()})
		default:
			sc.Events = append(sc.Events, engine.Event{At: at, K: "bus_w", A: 0xff10 + uint16(r.Intn(0x20)), V: r.EdgeByte()})
		}
		at++
	}
	sc.Cycles = at + 16
	return sc
}

func (c18) Execute(sc *engine.Scenario) *engine.Result {
	res := &engine.Result{}
	m := build(sc, res)
	if m == nil {
		return res
	}
	m.Write(0xff40, 0)
	park(sc, m, res)
	ref := dmgref.NewAPU()
	write := func(a uint16, v uint8) {
		m.Write(a, v)
		ref.Write(a, v)
	}
	// defined start: power cycle
	ref.Power = true
	write(0xff26, 0x00)
	write(0xff26, 0x80)
	var wave [16]uint8
	waveKnown := false
	baseline := func() {
		for i := range wave {
			wave[i] = m.Read(0xff30 + uint16(i))
		}
		waveKnown = true
	}
	ch3on := func() bool { return m.Read(0xff26)&0x04 != 0 }
	if !ch3on() {
		baseline()
	}
	cycledSinceBaseline := false
	dg := engine.NewDigest()
	checkAll := func(what string) bool {
		for a := uint16(0xff10); a <= 0xff2f; a++ {
			got := m.Read(a)
			dg.Byte(got)
			if a == 0xff26 {
				want := uint8(0x70)
				if ref.Power {
					want |= 0x80
				}
				if got&0xf0 != want {
					res.Fail("C18/nr52", m.N, "NR52 reads %02x, expected %02x in bits 4-7 (power=%v; %s)", got, want, ref.Power, what)
					return false
				}
				continue
			}
			if _, ok := dmgref.APUReadMask(a); !ok {
				res.Probe("unmapped_sound_io")
				if got != 0xff {
					res.Fail(fmt.Sprintf("C18/unmapped/%04x", a), m.N, "%04x reads %02x, expected ff (%s)", a, got, what)
					return false
				}
				continue
			}
			if a == 0xff13 || a == 0xff14 {
				// the sweep unit rewrites the frequency; neither register exposes those bits
			}
			want := ref.ReadReg(a)
			if a == 0xff13 || a == 0xff18 || a == 0xff1d || a == 0xff1b || a == 0xff20 {
				want = 0xff
			}
			if a == 0xff14 || a == 0xff19 || a == 0xff1e || a == 0xff23 {
				want = 0xbf | ref.Reg[a-0xff10]&0x40
			}
			if got != want {
				pw := "on"
				if !ref.Power {
					pw = "off"
				}
				res.Fail(fmt.Sprintf("C18/readback/%04x/power-%s", a, pw), m.N, "%04x reads %02x, expected %02x = last accepted write %02x | mask (power %s; %s)", a, got, want, ref.Reg[a-0xff10], pw, what)
				return false
			}
		}
		if !ch3on() {
			if !waveKnown {
				baseline()
				cycledSinceBaseline = false
			} else {
				for i := range wave {
					if got := m.Read(0xff30 + uint16(i)); got != wave[i] {
						res.Fail("C18/wave-ram", m.N, "wave RAM byte %x reads %02x with channel 3 off, stored %02x (power cycled since stored: %v; %s)", i, got, wave[i], cycledSinceBaseline, what)
						return false
					}
				}
				if cycledSinceBaseline {
					res.Probe("wave_ram_checked_after_power_cycle")
				}
			}
		}
		return true
	}
	ei := 0
	ok := checkAll("start")
	for m.N < sc.Cycles && ok {
		for ei < len(sc.Events) && sc.Events[ei].At <= m.N && ok {
			ev := sc.Events[ei]
			ei++
			if applyOther(m, &ev, res) {
				continue
			}
			on3 := ch3on()
			pw := ref.Power
			switch {
			case ev.A == 0xff26:
				if pw && ev.V&0x80 == 0 {
					res.Probe("power_off")
					cycledSinceBaseline = true
				}
				if !pw && ev.V&0x80 != 0 {
					res.Probe("power_on")
				}
			case ev.A >= 0xff30:
				if on3 {
					waveKnown = false // goes to the byte being played, if anywhere
				} else {
					wave[ev.A-0xff30] = ev.V
				}
			case ev.A == 0xff1e && on3 && ev.V&0x80 != 0 && pw:
				waveKnown = false // retrigger of a playing channel 3 corrupts wave RAM on a DMG
			default:
				if !pw {
					if ev.A == 0xff11 || ev.A == 0xff16 || ev.A == 0xff1b || ev.A == 0xff20 {
						res.Probe("length_write_while_off")
					} else if _, isReg := dmgref.APUReadMask(ev.A); isReg {
						res.Probe("write_while_off_ignored")
					}
				}
			}
			write(ev.A, ev.V)
			res.Fault("sound_write")
			vc := "other"
			switch ev.V {
			case 0x00:
				vc = "00"
			case 0xff:
				vc = "ff"
			}
			res.Sig(fmt.Sprintf("%04x/power=%v/%s/cycled=%v", ev.A, pw, vc, cycledSinceBaseline))
			ok = checkAll(fmt.Sprintf("after %04x<-%02x", ev.A, ev.V))
		}
		if !ok {
			break
		}
		next := sc.Cycles
		if ei < len(sc.Events) && sc.Events[ei].At < next {
			next = sc.Events[ei].At
		}
		if next <= m.N {
			next = m.N + 1
		}
		m.RunCycles(next - m.N)
		ok = checkAll("after elapsed time")
	}
	res.Cycles = m.N
	res.Digest = uint64(dg)
	return res
}
