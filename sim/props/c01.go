package props

import "verifsim/engine"

// C01 — every SM83 instruction has its documented effect on registers, flags and memory.
//
// Simulated dimension: history and interference. Instructions are executed by the real CPU
// inside the real frame loop, in generated programs, after whatever ran before them
// (scratch operands, half-finished conditionals), while interrupt lines rise at arbitrary
// cycle offsets (dispatch masked by IE=0). The value space itself (the directed sweeps) is
// generated input, run through the same simulator and oracle.
type c01 struct{}

func init() { engine.Register(c01{}) }

func (c01) ID() string { return "C01" }

const c01QuickPrograms = 20000

func (c01) Budget(tier string) int {
	if tier == "thorough" {
		return 600000 + sweepChunks*2
	}
	return c01QuickPrograms + sweepChunks
}

func (c01) Describe() engine.Info {
	return engine.Info{
		Rule: "scenario = random register/flag state + generated program of 1..40 tested instructions (all 243 lock-step base opcodes and all 256 CB opcodes; pointers confined to plain-memory windows: WRAM, echo, HRAM, VRAM/OAM with LCD off, ROM) executed from WRAM or ROM, with 0-4 interrupt lines raised at arbitrary cycle offsets (IE=0). " +
			"Directed sweep chunks (class sweep) place every case of a finite operand space at an instruction boundary of one long run. Oracle: reference SM83, compared at every instruction boundary (registers, F low nibble, written memory, IF/IE) plus a whole plain-memory comparison every 48 instructions. " +
			"Signature = (opcode, interrupt line rose mid-instruction); all are non-trivial (operands are never all-default)." +
			" Control-flow sweeps (class sweep, families jr*/jpcall*/ret*/rst*/jphl/ldsphl) place one instruction per case and reset PC at every boundary. Class banked-code: the program switches the ROM bank it executes from (MBC1 mode-1 low window; high window of MBC1/3/5), the same addresses run under alternating pages. Every bus write of the real CPU (hook H4) is compared with the documented writes of the instruction. Class oam-pointer-lcd-on: LCD on, stores / 16-bit INC/DEC / PUSH through pointers in FE00-FEFF in every LCD mode (registers, flags, PC and bus stores judged; OAM contents are C17's). Programs occasionally load the verdict register patterns of the repository's test ROMs and execute marker self-loads (LD B,B ...).",
		Assumptions: []string{
			"HALT and STOP are excluded here (HALT is C05); undefined opcodes never appear in generated programs",
			"the operand value space is generated input; the simulator contributes history and interference only",
			"exhaustive enumeration is used as a directed workload through the same oracle, the deciding step stays the seeded search",
		},
		RequiredProbes: []string{"irq_raised_mid_instruction", "sweep_cases", "instructions"},
		RealComponents: realComponents, StubComponents: stubComponents,
		Sweeps: []string{"A x operand x carry for ADD/ADC/SUB/SBC/AND/XOR/OR/CP (8 x 131072)", "value x carry for every CB rotate/shift/SWAP x register (56 x 512)",
			"RLCA/RRCA/RLA/RRA/CPL/SCF/CCF: A x 16 flag nibbles", "BIT/RES/SET n x value x carry", "INC/DEC r: value x carry", "DAA: A x 16 flag nibbles",
			"INC/DEC rr: all 65536 values x 4 pairs", "ADD SP,e / LD HL,SP+e: SP low byte x e x 4 high bytes", "ADD HL,rr: 144 boundary pairs + random pairs",
			"quick runs every chunk once; thorough twice with different unrelated registers"},
	}
}

func (c01) Generate(r *engine.Rand, index int, tier string) *engine.Scenario {
	sc := &engine.Scenario{}
	progs := c01QuickPrograms
	if tier == "thorough" {
		progs = 600000
	}
	if index >= progs {
		genSweep(r, sc, index-progs)
		return sc
	}
	if index%16 == 7 {
		genBankedCode(r, sc)
		return sc
	}
	if index%16 == 11 {
		// the LCD stays on and stores, 16-bit INC/DEC and PUSH go through pointers inside FE00-FEFF,
		// whatever the LCD is doing (OAM scan included): what ends up in OAM is not C01's business (C17),
		// registers, flags, PC and the stores put on the bus are
		sc.Class = "oam-pointer-lcd-on"
		g := &progGen{r: r, base: lsCodeWRAM}
		g.emitStackSetup()
		g.filler(r.Intn(12))
		g.onlyOAM = true
		for i, n := 0, r.Range(4, 30); i < n; i++ {
			switch r.Intn(6) {
			case 0:
				p := uint8(r.Intn(4))
				g.emit16(0x01|p<<4, g.pick(1))
				for j, k := 0, r.Range(1, 3); j < k; j++ {
					g.emit(engine.Pick(r, []uint8{0x03, 0x0b}) | p<<4)
				}
			case 1:
				g.emit16(0x31, g.pick(2))
				g.emit(engine.Pick(r, []uint8{0xc5, 0xd5, 0xe5, 0xf5}))
			case 2, 3:
				g.emitUnit(engine.Pick(r, []uint8{0x22, 0x32}), false, false)
			case 4:
				g.emitUnit(engine.Pick(r, []uint8{0x70, 0x71, 0x72, 0x73, 0x77, 0x36, 0x02, 0x12}), false, false)
			default:
				g.emitUnit(engine.Pick(r, []uint8{0xea, 0x08}), false, false)
			}
			g.filler(r.Intn(3))
		}
		g.onlyOAM = false
		g.emitStackSetup()
		g.finish()
		lsScenario(sc, r, g)
		sc.SetP("keep_lcd", 1)
		sc.Cycles = uint64(len(g.code))*3 + 64
		return sc
	}
	sc.Class = "program"
	genCPUProgram(r, sc, r.Range(1, 40))
	return sc
}

var c01Focus = map[string]bool{"regs": true, "mem": true, "buswrite": true, "buswrite-missing": true, "flags-low": true, "stray": true, "if": true, "ie": true}

func (c01) Execute(sc *engine.Scenario) *engine.Result { return executeCPU("C01", sc, c01Focus) }

// genBankedCode: a program that switches the ROM bank it is executing from, again and again, so that
// the same addresses are executed under alternating pages holding different instructions. low: an MBC1
// cartridge of 1 MiB in mode 1, where BANK2 also selects the page seen at 0000-3FFF (pages 00 and 20);
// high: the ordinary switchable window 4000-7FFF of MBC1/MBC3/MBC5 (pages 1 and 2). Every opcode is
// what the bus returns at PC when it is fetched, whatever was there the last time round.
func genBankedCode(r *engine.Rand, sc *engine.Scenario) {
	sc.Class = "banked-code"
	low := r.Bool()
	pool := []uint8{0x00, 0x04, 0x0c, 0x05, 0x0d, 0x24, 0x2c, 0x25, 0x2d, 0x07, 0x17, 0x2f, 0x37, 0x3f, 0x80, 0xa8, 0xb1, 0x47, 0x4f}
	k1, k2 := r.Range(1, 6), r.Range(1, 6)
	build := func() []byte {
		var c []byte
		c = append(c, 0x31, 0x00, 0xdb)
		if low {
			c = append(c, 0x3e, 0x01, 0xea, 0x00, 0x60) // mode 1
			c = append(c, 0x16, uint8(r.Range(3, 7)), 0x1e, 0x00)
		} else {
			c = append(c, 0x00, 0x00, 0x00, 0x00, 0x00)
			c = append(c, 0x16, uint8(r.Range(3, 7)), 0x1e, 0x01)
		}
		loop := len(c)
		for i := 0; i < k1; i++ {
			c = append(c, engine.Pick(r, pool))
		}
		c = append(c, 0x7b) // LD A,E
		if low {
			c = append(c, 0xee, 0x01, 0x5f, 0xea, 0x00, 0x40) // XOR 1 ; LD E,A ; LD (4000),A
		} else {
			c = append(c, 0xee, 0x03, 0x5f, 0xea, 0x00, 0x20) // XOR 3 ; LD E,A ; LD (2000),A
		}
		for i := 0; i < k2; i++ {
			c = append(c, engine.Pick(r, pool))
		}
		c = append(c, 0x15, 0x20)
		c = append(c, uint8(loop-(len(c)+1)))
		c = append(c, 0x18, 0xfe)
		return c
	}
	a := build()
	b := build()
	// the two pages agree everywhere except in the filler instructions (same loop counter too)
	b[9], b[11] = a[9], a[11]
	g := &progGen{r: r, base: lsCodeROM}
	kind, typ, romCode, page2 := "mbc1", uint8(0x03), uint8(5), 0x20
	if !low {
		g.base = 0x4150
		page2 = 2
		switch r.Intn(3) {
		case 0:
			kind, typ, romCode = "mbc1", 0x03, uint8(r.Range(2, 5))
		case 1:
			kind, typ, romCode = "mbc3", 0x13, uint8(r.Range(2, 5))
		default:
			kind, typ, romCode = "mbc5", 0x1b, uint8(r.Range(2, 5))
		}
	}
	g.code = a
	lsScenario(sc, r, g)
	sc.Cart = engine.CartSpec{Kind: kind, Type: typ, RomCode: romCode, RamCode: 2, Program: engine.Hex(a), Entry: g.base, Program2: engine.Hex(b), Page2: page2, FillSeed: r.U64()}
	sc.SetP("ime", 0)
	sc.SetP("if", 0)
	sc.Cycles = uint64(len(a))*3*8 + 128
}
