package props

import "verifsim/engine"

// C01 — every SM83 instruction has its documented effect on registers, flags and memory.
//
// Simulated dimension: history and interference. Instructions are executed by the real CPU
// inside the real frame loop, in generated programs, after whatever ran before them
// (scratch operands, half-finished conditionals), while interrupt lines rise at arbitrary
// cycle offsets (dispatch masked by IE=0). The value space itself (the directed sweeps) is
// generated input, run through the same simulator and oracle.
type c01 struct{}

func init() { engine.Register(c01{}) }

func (c01) ID() string { return "C01" }

const c01QuickPrograms = 20000

func (c01) Budget(tier string) int {
	if tier == "thorough" {
		return 600000 + sweepChunks*2
	}
	return c01QuickPrograms + sweepChunks
}

func (c01) Describe() engine.Info {
	return engine.Info{
		Rule: "scenario = random register/flag state + generated program of 1..40 tested instructions (all 243 lock-step base opcodes and all 256 CB opcodes; pointers confined to plain-memory windows: WRAM, echo, HRAM, VRAM/OAM with LCD off, ROM) executed from WRAM or ROM, with 0-4 interrupt lines raised at arbitrary cycle offsets (IE=0). " +
			"Directed sweep chunks (class sweep) place every case of a finite operand space at an instruction boundary of one long run. Oracle: reference SM83, compared at every instruction boundary (registers, F low nibble, written memory, IF/IE) plus a whole plain-memory comparison every 48 instructions. " +
			"Signature = (opcode, interrupt line rose mid-instruction); all are non-trivial (operands are never all-default).",
		Assumptions: []string{
			"HALT and STOP are excluded here (HALT is C05); undefined opcodes never appear in generated programs",
			"the operand value space is generated input; the simulator contributes history and interference only",
			"exhaustive enumeration is used as a directed workload through the same oracle, the deciding step stays the seeded search",
		},
		RequiredProbes: []string{"irq_raised_mid_instruction", "sweep_cases", "instructions"},
		RealComponents: realComponents, StubComponents: stubComponents,
		Sweeps: []string{"A x operand x carry for ADD/ADC/SUB/SBC/AND/XOR/OR/CP (8 x 131072)", "value x carry for every CB rotate/shift/SWAP x register (56 x 512)",
			"RLCA/RRCA/RLA/RRA/CPL/SCF/CCF: A x 16 flag nibbles", "BIT/RES/SET n x value x carry", "INC/DEC r: value x carry", "DAA: A x 16 flag nibbles",
			"INC/DEC rr: all 65536 values x 4 pairs", "ADD SP,e / LD HL,SP+e: SP low byte x e x 4 high bytes", "ADD HL,rr: 144 boundary pairs + random pairs",
			"quick runs every chunk once; thorough twice with different unrelated registers"},
	}
}

func (c01) Generate(r *engine.Rand, index int, tier string) *engine.Scenario {
	sc := &engine.Scenario{}
	progs := c01QuickPrograms
	if tier == "thorough" {
		progs = 600000
	}
	if index >= progs {
		genSweep(r, sc, index-progs)
		return sc
	}
	sc.Class = "program"
	genCPUProgram(r, sc, r.Range(1, 40))
	return sc
}

var c01Focus = map[string]bool{"regs": true, "mem": true, "buswrite": true, "buswrite-missing": true, "flags-low": true, "stray": true, "if": true, "ie": true}

func (c01) Execute(sc *engine.Scenario) *engine.Result { return executeCPU("C01", sc, c01Focus) }
