package props

import (
	"fmt"
	"os"

	"verifsim/engine"
	"verifsim/machine"
)

// C23 — serial output delivers each written byte once, in order.
//
// Simulated dimension: the serial writer as an outside party recording (cycle, byte), and
// the other parties running while the guest writes: programs interleave SB/SC writes with
// other I/O (timer, LCD, DMA starts, sound), interrupts are dispatched in between, and the
// test ROMs of the repository run as guests whose SB writes are snooped at instruction
// boundaries. The check is a history check: delivered sequence == written sequence.
type c23 struct{}

func init() { engine.Register(c23{}) }

func (c23) ID() string { return "C23" }

func (c23) Budget(tier string) int {
	if tier == "thorough" {
		return 60000
	}
	return 2400
}

var c23ROMs = []string{"blargg/instr_timing/instr_timing.gb", "blargg/mem_timing/mem_timing.gb", "blargg/halt_bug.gb"}

func (c23) Describe() engine.Info {
	return engine.Info{
		Rule: "class program: generated program of 10..120 steps over {write random byte to SB, write random byte to SC, read SB/SC into a buffer, start an OAM DMA, poke timer/LCD/sound registers, EI/DI with timer and VBlank interrupts enabled (handlers return at once), NOP runs}, serial writer attached or nil; class rom: blargg ROMs run as guests, their SB writes snooped by decoding the store instruction at every instruction boundary of the real CPU. " +
			"Oracle: bytes delivered to the writer == sequence of SB writes (exactly once, in order, nothing else); nothing delivered and no crash with a nil writer; SB and SC read FF. Signature = (class, what preceded the SB write: SC value class / DMA running / interrupt dispatched / LCD on)." +
			" Read-modify-write instructions on SB count as writes; if a program leaves its path the SB stores actually executed are the oracle; class pair: two instances with slow writers interleaved by the scheduler. Class program-long-line: >65,536 consecutive SB stores none of which is a line feed; class program-traced: instruction trace on (standard output captured), no writer: standard output equals that of the same run with a writer. With no writer configured standard error is watched as well. Stores to SB every seventh cycle in all seven alignments after a transfer request; the recorder is a closable writer and must stay open.",
		Assumptions:    []string{"writer errors make the emulator panic by design; the statement is silent on them and they are not injected", "ROM SB writes are recognised for the store forms LDH (n),A / LD (C),A / LD (nn),A / LD (HL),r / LD (HL),n / LD (rr),A / LD (HL+-),A"},
		RequiredProbes: []string{"sb_writes", "sb_write_after_sc_external_clock", "sb_write_during_dma", "nil_writer_runs", "sb_sc_reads", "rom_sb_writes", "blocked_in_writer_while_other_instance_runs", "program_continued_after_cleanup", "traced_without_writer", "long_line"},
		RealComponents: realComponents, StubComponents: stubComponents,
	}
}

func (c23) Generate(r *engine.Rand, index int, tier string) *engine.Scenario {
	sc := &engine.Scenario{Cart: simpleRom()}
	if index%40 == 39 {
		sc.Class = "rom"
		sc.SetStr("rom", c23ROMs[(index/40)%len(c23ROMs)])
		sc.Cycles = 3_000_000
		return sc
	}
	if index%10 == 7 {
		// two instances in one process, each with its own (slow) writer: an instance blocks inside its
		// writer before the byte has been consumed while the scheduler runs the other one, which writes
		// to its own SB meanwhile. Each writer must receive exactly its own guest's bytes.
		sc.Class = "pair"
		sc.Serial = true
		for i := 0; i < 2; i++ {
			code, expect, _ := c23Program(r)
			sc.SetStr(fmt.Sprintf("prog%d", i), engine.Hex(code))
			sc.SetStr(fmt.Sprintf("expect%d", i), engine.Hex(expect))
		}
		sc.SetP("slice_seed", int64(r.U64()>>1))
		sc.Cycles = 17556 * 2
		return sc
	}
	sc.Class = "program"
	sc.Serial = index%5 != 4
	if index%20 == 3 {
		// the instance goes on after its outputs were released (Cleanup, as Run does when it returns; no
		// audio or video attached): the configured writer still gets every byte
		sc.Class = "program-after-cleanup"
		sc.Serial = true
		sc.SetP("cleanup_at", int64(r.Range(20, 400)))
	}
	if k := index % 600; k >= 20 && k < 27 {
		// a transfer is requested (SC = 81, or 80, or 01), SC is left alone and SB is stored to every
		// seventh cycle for a few thousand cycles, in each of the seven alignments to the request
		sc.Class = "program-long-line"
		sc.Serial = true
		prog := []byte{0x3e, engine.Pick(r, []uint8{0x81, 0x81, 0x80, 0x01}), 0xe0, 0x02}
		for i := 0; i < k-20; i++ {
			prog = append(prog, 0x00)
		}
		prog = append(prog, 0x3e, uint8(r.Range(0x0b, 0xf0)), 0xe0, 0x01, 0x3c, 0x20, 0xfb, 0x18, 0xf7, 0x18, 0xfe)
		sc.SetStr("prog", engine.Hex(prog))
		sc.SetStr("expect", "")
		sc.SetP("short", 1)
		sc.Cycles = uint64(r.Range(3000, 12000))
		return sc
	}
	if index%600 == 11 {
		// one very long line: tens of thousands of bytes none of which is a line feed
		sc.Class = "program-long-line"
		sc.Serial = true
		lo := uint8(r.Range(0x0b, 0xf0))
		// a transfer is requested (SC = 81) and SC is left alone from then on; the stores to SB follow every
		// seventh cycle, in one of the seven alignments to the moment of the request
		prog := []byte{0x3e, engine.Pick(r, []uint8{0x81, 0x81, 0x80, 0x01}), 0xe0, 0x02}
		for i, n := 0, (index/600)%7; i < n; i++ {
			prog = append(prog, 0x00)
		}
		prog = append(prog, 0x3e, lo, 0xe0, 0x01, 0x3c, 0x20, 0xfb, 0x18, 0xf7, 0x18, 0xfe)
		sc.SetStr("prog", engine.Hex(prog))
		sc.SetStr("expect", "")
		sc.Cycles = 480_000 + uint64(r.Intn(40_000))
		if tier == "thorough" {
			sc.Cycles *= 3
		}
		return sc
	}
	if index%20 == 13 {
		// the instruction trace is on (it goes to standard output) and no writer is configured: standard
		// output carries the trace and nothing else - the same bytes as in a run of the same program with
		// a writer configured
		sc.Class = "program-traced"
		sc.Serial = false
		sc.SetP("debugcpu", 1)
	}
	code, expect, reads := c23Program(r)
	sc.SetStr("prog", engine.Hex(code))
	sc.SetStr("expect", engine.Hex(expect))
	sc.SetP("reads", int64(reads))
	sc.Cycles = uint64(len(code))*3 + 2000
	return sc
}

// c23Program generates one guest program and the bytes it writes to SB, in order.
func c23Program(r *engine.Rand) (code, expect []byte, reads int) {
	emit := func(b ...byte) { code = append(code, b...) }
	// prologue: stack, buffer pointer, interrupts that return at once
	emit(0x31, 0x00, 0xdf)       // LD SP,DF00
	emit(0x21, 0x00, 0xd0)       // LD HL,D000 (read-back buffer)
	emit(0x3e, 0x05, 0xe0, 0xff) // IE = VBlank|Timer
	for i, n := 0, r.Range(10, 120); i < n; i++ {
		switch k := r.Intn(16); {
		case k < 6:
			v := r.Byte()
			emit(0x3e, v, 0xe0, 0x01)
			expect = append(expect, v)
		case k < 8:
			v := r.Byte()
			if r.Bool() {
				v = engine.Pick(r, []uint8{0x80, 0x81, 0x00, 0x01, 0xfe, 0xff})
			}
			emit(0x3e, v, 0xe0, 0x02)
		case k == 8:
			emit(0xf0, uint8(0x01+r.Intn(2)), 0x22) // LDH A,(SB|SC) ; LD (HL+),A
			reads++
		case k == 9:
			emit(0x3e, uint8(r.Range(0xc0, 0xdd)), 0xe0, 0x46) // start a DMA
		case k == 10:
			emit(0x3e, r.Byte(), 0xe0, engine.Pick(r, []uint8{0x07, 0x05, 0x06, 0x40, 0x41, 0x26, 0x12, 0x14, 0x24, 0x25}))
		case k == 11:
			emit(engine.Pick(r, []uint8{0xfb, 0xf3}))
		case k == 12: // alternative store forms to SB
			v := r.Byte()
			switch r.Intn(3) {
			case 0:
				emit(0x3e, v, 0x0e, 0x01, 0xe2) // LD C,01 ; LD (C),A
			case 1:
				emit(0x3e, v, 0xea, 0x01, 0xff) // LD (FF01),A
			default:
				emit(0xe5, 0x21, 0x01, 0xff, 0x36, v, 0xe1) // PUSH HL ; LD HL,FF01 ; LD (HL),v ; POP HL
			}
			expect = append(expect, v)
			if r.Chance(1, 3) {
				// read-modify-write instructions on SB: the read returns FF, the result is a write like any other
				// (carry cleared first so that the rotates through carry are determined)
				var ops []byte
				var w uint8
				switch r.Intn(4) {
				case 0:
					ops, w = []byte{0x34}, 0x00
				case 1:
					ops, w = []byte{0x35}, 0xfe
				case 2:
					b := uint8(r.Intn(8))
					ops, w = []byte{0xcb, 0xc6 | b<<3}, 0xff // SET b,(HL)
				default:
					b := uint8(r.Intn(8))
					ops, w = []byte{0xcb, 0x86 | b<<3}, 0xff&^(1<<b) // RES b,(HL)
				}
				emit(0xe5, 0x21, 0x01, 0xff)
				emit(ops...)
				emit(0xe1)
				expect = append(expect, w)
			}
		default:
			for j, m := 0, r.Intn(6); j < m; j++ {
				emit(0x00)
			}
		}
	}
	emit(0xf3, 0x18, 0xfe)
	return
}

// sbStore decodes the instruction at PC and reports whether it stores to FF01 and what.
func sbStore(m *machine.Machine) (bool, uint8) {
	rg := m.CPU.VerifGetRegs()
	op := m.Read(rg.PC)
	hl := uint16(rg.H)<<8 | uint16(rg.L)
	regv := func(z uint8) uint8 {
		return []uint8{rg.B, rg.C, rg.D, rg.E, rg.H, rg.L, 0, rg.A}[z]
	}
	switch {
	case op == 0xe0:
		return m.Read(rg.PC+1) == 0x01, rg.A
	case op == 0xe2:
		return rg.C == 0x01, rg.A
	case op == 0xea:
		return m.Read(rg.PC+1) == 0x01 && m.Read(rg.PC+2) == 0xff, rg.A
	case op >= 0x70 && op <= 0x77 && op != 0x76:
		return hl == 0xff01, regv(op & 7)
	case op == 0x36:
		return hl == 0xff01, m.Read(rg.PC + 1)
	case op == 0x22 || op == 0x32:
		return hl == 0xff01, rg.A
	case op == 0x02:
		return uint16(rg.B)<<8|uint16(rg.C) == 0xff01, rg.A
	case op == 0x12:
		return uint16(rg.D)<<8|uint16(rg.E) == 0xff01, rg.A
	case op == 0x34 || op == 0x35:
		return hl == 0xff01, sbRMW(op, false, rg.F)
	case op == 0xcb:
		cb := m.Read(rg.PC + 1)
		if cb&7 == 6 && cb>>6 != 1 {
			return hl == 0xff01, sbRMW(cb, true, rg.F)
		}
	}
	return false, 0
}

// sbRMW is the byte a read-modify-write instruction on SB stores: SB reads FF, the result of the
// operation on FF is written back (BIT does not write).
func sbRMW(op uint8, cb bool, f uint8) uint8 {
	c := f >> 4 & 1
	if !cb {
		if op == 0x34 {
			return 0x00
		}
		return 0xfe
	}
	bit := uint8(1) << (op >> 3 & 7)
	switch op >> 6 {
	case 2:
		return 0xff &^ bit
	case 3:
		return 0xff
	}
	switch op >> 3 {
	case 2: // RL
		return 0xfe | c
	case 3: // RR
		return 0x7f | c<<7
	case 4: // SLA
		return 0xfe
	case 7: // SRL
		return 0x7f
	}
	return 0xff // RLC, RRC, SRA, SWAP of FF
}

func (c23) Execute(sc *engine.Scenario) *engine.Result {
	res := &engine.Result{}
	if sc.Class == "rom" {
		img, err := cartBuild(engine.CartSpec{Kind: "file", File: sc.Str("rom")})
		if err != nil {
			res.Harness = err.Error()
			return res
		}
		m, pi := machine.New(img, false, machine.Options{Serial: true})
		if pi != nil {
			res.Harness = pi.Value
			return res
		}
		m.GuardUndefined = true
		var written []byte
		m.OnCycle = func() {
			if !m.CPU.VerifAtBoundary() || m.CPU.VerifHalted() || m.CPU.VerifStopped() {
				return
			}
			if m.IRQ.Enabled() && m.IRQ.Pending() {
				return // an interrupt is dispatched instead of the instruction
			}
			if ok, v := sbStore(m); ok {
				written = append(written, v)
				res.Probe("rom_sb_writes")
			}
		}
		pi = machine.Protect(func() { m.RunCycles(sc.Cycles) })
		if pi != nil {
			res.Harness = "panic while running " + sc.Str("rom") + ": " + pi.Value
			return res
		}
		res.Cycles = m.N
		c23Compare(res, m.SerialOut, written, "rom")
		res.Sig("rom/" + shortROM(sc.Str("rom")))
		return res
	}
	if sc.Class == "pair" {
		return c23Pair(sc, res)
	}
	if sc.Class == "program-traced" && sc.P("traced_inner", 0) == 0 {
		// two runs with standard output captured: no writer, then a writer; the trace must be the same
		var out [2][]byte
		var first *engine.Result
		for i := 0; i < 2; i++ {
			c := sc.Clone()
			c.SetP("traced_inner", 1)
			c.Serial = i == 1
			var r *engine.Result
			out[i] = captureStdout(func() { r = c23{}.Execute(c) })
			if r.Harness != "" || r.Violation != nil {
				return r
			}
			if i == 0 {
				first = r
			}
		}
		first.Probe("traced_without_writer")
		if string(out[0]) != string(out[1]) {
			n := 0
			for n < len(out[0]) && n < len(out[1]) && out[0][n] == out[1][n] {
				n++
			}
			first.Fail("C23/stdout-without-writer", uint64(n), "with the instruction trace on and no writer configured, standard output differs from that of the same run with a writer configured at byte %d (%d bytes against %d): SB writes are not dropped without effect", n, len(out[0]), len(out[1]))
		}
		if len(out[0]) == 0 {
			first.Harness = "no trace captured on standard output"
		}
		return first
	}
	// with no writer configured nothing the guest sends may show up anywhere: standard error is watched
	// from the construction of the instance on (the harness itself writes nothing there meanwhile)
	var stderrEnd func() []byte
	if !sc.Serial {
		stderrEnd = captureFile(&os.Stderr)
		defer func() {
			if stderrEnd != nil {
				stderrEnd()
			}
		}()
	}
	m := build(sc, res)
	if m == nil {
		return res
	}
	prog := engine.UnHex(sc.Str("prog"))
	for i, b := range prog {
		m.Write(0xc000+uint16(i), b)
	}
	rg := m.CPU.VerifGetRegs()
	rg.PC = 0xc000
	m.CPU.VerifSetRegs(rg)
	expect := engine.UnHex(sc.Str("expect"))
	end := 0xc000 + uint16(len(prog)) - 2
	// the SB stores the CPU really executes (decoded at instruction boundaries), whatever path the
	// program takes; also tracks what precedes SB writes for coverage
	var executed []byte
	var lastStoreAt uint64
	cleaned := false
	m.OnCycle = func() {
		if !m.CPU.VerifAtBoundary() {
			return
		}
		if ok, v := sbStore(m); ok && !(m.IRQ.Enabled() && m.IRQ.Pending()) && !m.CPU.VerifHalted() {
			executed = append(executed, v)
			lastStoreAt = m.N
		}
		if ok, _ := sbStore(m); ok {
			res.Probe("sb_writes")
			if dma, _ := m.OAM.VerifDMA(); dma {
				res.Probe("sb_write_during_dma")
				res.Sig("program/sb/dma")
			}
			if m.Read(0xff40)&0x80 != 0 {
				res.Sig("program/sb/lcd-on")
			}
		}
		if ca := uint64(sc.P("cleanup_at", 0)); ca != 0 && m.N >= ca && !cleaned {
			cleaned = true
			m.GB.Cleanup()
			res.Fault("cleanup_mid_run")
			res.Probe("program_continued_after_cleanup")
		}
		if m.CPU.VerifGetRegs().PC == end && m.N > 16 {
			m.Stop()
		}
	}
	// SC value classes are known statically: count SB writes that follow an "external clock, transfer requested" SC value
	lastSC := -1
	for i := 0; i+3 < len(prog); i++ {
		if prog[i] == 0x3e && prog[i+2] == 0xe0 {
			if prog[i+3] == 0x02 {
				lastSC = int(prog[i+1])
			}
			if prog[i+3] == 0x01 && lastSC >= 0 && lastSC&0x81 == 0x80 {
				res.Probe("sb_write_after_sc_external_clock")
				res.Sig("program/sb/after-sc-80")
			}
		}
	}
	pi := machine.Protect(func() { m.RunCycles(sc.Cycles) })
	res.Cycles = m.N
	if pi != nil {
		if pi.Emulator {
			res.Fail("C23/panic/"+pi.Site, m.N, "emulator panicked while the guest used the serial port (writer attached=%v): %s", sc.Serial, pi.Value)
			return res
		}
		res.Harness = pi.Value + "\n" + pi.Stack
		return res
	}
	if pc := m.CPU.VerifGetRegs().PC; sc.Class == "program-long-line" || (pc != end && pc != end+2) {
		// (the endless store loops never end: a run that stops in the middle of their last jump shows a
		// program counter that only looks like the end)
		// the program left its path (only an emulator that mishandles something can cause that): what
		// was delivered is still judged against the SB stores that were executed
		if len(executed) > 0 && m.N-lastStoreAt < 4 && len(m.SerialOut) == len(executed)-1 {
			executed = executed[:len(executed)-1] // the run ended inside the last store instruction
		}
		if sc.Serial {
			if c23Compare(res, m.SerialOut, executed, "program-astray"); res.Violation != nil {
				return res
			}
		}
		if sc.Class == "program-long-line" {
			if len(executed) > 66000 {
				res.Probe("long_line")
			}
			if sc.P("short", 0) != 0 {
				res.Probe("sb_stores_every_seventh_cycle_after_a_transfer_request")
			}
			res.Sig("program/long-line")
			return res
		}
		// the program has not reached its end within the run (a timer set to overflow every few cycles
		// keeps the CPU in its handlers, say): what was delivered has been judged against the SB stores that
		// were executed, which is all this property asks
		res.Probe("program_did_not_finish_in_time")
		res.Sig("program/unfinished")
		return res
	}
	if m.SerialClosed > 0 && res.Violation == nil {
		res.Fail("C23/writer-closed-by-the-emulator", m.N, "the emulator closed the caller's serial writer (%d times): bytes the guest writes from now on cannot be delivered", m.SerialClosed)
		return res
	}
	if sc.Serial {
		c23Compare(res, m.SerialOut, expect, "program")
	} else {
		res.Probe("nil_writer_runs")
		if len(m.SerialOut) != 0 {
			res.Fail("C23/delivered-without-writer", m.N, "bytes were delivered although no writer is configured")
		}
		if stderrEnd != nil {
			b := stderrEnd()
			stderrEnd = nil
			if len(b) != 0 && res.Violation == nil {
				res.Fail("C23/stderr-without-writer", uint64(len(b)), "no writer is configured, yet %d bytes appeared on standard error while the guest wrote to SB: %q", len(b), string(b[:min(len(b), 40)]))
			}
		}
		res.Sig("program/nil-writer")
	}
	// SB and SC read FF
	for i := 0; i < int(sc.P("reads", 0)); i++ {
		res.Probe("sb_sc_reads")
		if v := m.Read(0xd000 + uint16(i)); v != 0xff {
			res.Fail("C23/sb-sc-readback", m.N, "read number %d of SB/SC by the guest returned %02x, expected ff", i, v)
			break
		}
	}
	res.Sig(fmt.Sprintf("program/serial=%v/len=%d", sc.Serial, len(expect)/16))
	{
		dg := engine.NewDigest()
		dg.Bytes(m.SerialOut)
		for _, at := range m.SerialAt {
			dg.U64(at)
		}
		res.Digest = uint64(dg)
	}
	return res
}

// captureFile redirects *fp (os.Stdout or os.Stderr) into a scratch file; the returned function ends
// the redirection and returns what was written.
func captureFile(fp **os.File) func() []byte {
	tmp, err := os.CreateTemp(machine.ScratchDir(), "capture-*")
	if err != nil {
		panic(err)
	}
	saved := *fp
	*fp = tmp
	return func() []byte {
		*fp = saved
		tmp.Close()
		b, _ := os.ReadFile(tmp.Name())
		os.Remove(tmp.Name())
		return b
	}
}

// captureStdout runs f with the process's standard output redirected into a scratch file and returns
// what was written to it.
func captureStdout(f func()) []byte {
	tmp, err := os.CreateTemp(machine.ScratchDir(), "stdout-*")
	if err != nil {
		panic(err)
	}
	defer os.Remove(tmp.Name())
	defer tmp.Close()
	saved := os.Stdout
	os.Stdout = tmp
	func() {
		defer func() { os.Stdout = saved }()
		f()
	}()
	b, err := os.ReadFile(tmp.Name())
	if err != nil {
		panic(err)
	}
	return b
}

func c23Compare(res *engine.Result, got, want []byte, cls string) {
	n := len(got)
	if len(want) < n {
		n = len(want)
	}
	for i := 0; i < n; i++ {
		if got[i] != want[i] {
			res.Fail("C23/"+cls+"/wrong-byte", uint64(i), "byte %d delivered to the writer is %02x, the guest's %d-th SB write was %02x (delivered %d bytes, written %d)", i, got[i], i, want[i], len(got), len(want))
			return
		}
	}
	switch {
	case len(got) < len(want):
		res.Fail("C23/"+cls+"/byte-lost", uint64(n), "the guest wrote %d bytes to SB but only %d were delivered (first missing: write %d = %02x, or an earlier byte was dropped)", len(want), len(got), n, want[n])
	case len(got) > len(want):
		res.Fail("C23/"+cls+"/extra-byte", uint64(n), "%d bytes were delivered but the guest wrote only %d to SB (extra byte %02x)", len(got), len(want), got[n])
	}
}

// c23Pair: two instances advanced in seeded slices, both with slow writers.
func c23Pair(sc *engine.Scenario, res *engine.Result) *engine.Result {
	var ms [2]*machine.Machine
	var ends [2]uint16
	for i := range ms {
		m := build(sc, res)
		if m == nil {
			return res
		}
		prog := engine.UnHex(sc.Str(fmt.Sprintf("prog%d", i)))
		for j, b := range prog {
			m.Write(0xc000+uint16(j), b)
		}
		rg := m.CPU.VerifGetRegs()
		rg.PC = 0xc000
		m.CPU.VerifSetRegs(rg)
		m.SlowSerial = true
		m.StartCo(int(sc.Cycles / 17556))
		ms[i] = m
		ends[i] = 0xc000 + uint16(len(prog)) - 2
	}
	r := engine.NewRand(uint64(sc.P("slice_seed", 1)))
	done := [2]bool{}
	for steps := 0; !(done[0] && done[1]) && steps < 200000; steps++ {
		i := r.Intn(2)
		if done[i] {
			i = 1 - i
		}
		m := ms[i]
		k := uint64(r.Range(1, 40))
		if r.Chance(1, 8) {
			k = uint64(r.Range(40, 3000))
		}
		if m.Resume(k) {
			done[i] = true
			if pi := m.CoPanic(); pi != nil {
				if pi.Emulator {
					res.Fail("C23/panic/"+pi.Site, m.N, "emulator panicked while two instances used their serial ports: %s", pi.Value)
				} else {
					res.Harness = pi.Value + "\n" + pi.Stack
				}
				break
			}
		}
		if m.InWriter() {
			res.Probe("blocked_in_writer_while_other_instance_runs")
			res.Fault("serial_writer_stall")
		} else if pc := m.CPU.VerifGetRegs().PC; pc == ends[i] || pc == ends[i]+2 {
			done[i] = true // parked in its final loop
		}
	}
	for _, m := range ms {
		m.Abandon()
		res.Cycles += m.N
	}
	if res.Violation != nil || res.Harness != "" {
		return res
	}
	for i, m := range ms {
		c23Compare(res, m.SerialOut, engine.UnHex(sc.Str(fmt.Sprintf("expect%d", i))), fmt.Sprintf("pair/instance%d", i))
		if res.Violation != nil {
			return res
		}
	}
	res.Sig("pair")
	dg := engine.NewDigest()
	dg.Bytes(ms[0].SerialOut)
	dg.Bytes(ms[1].SerialOut)
	res.Digest = uint64(dg)
	return res
}
