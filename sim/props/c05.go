package props

import (
	"fmt"

	"verifsim/engine"
	"verifsim/machine"
)

// C05 — HALT idles until an enabled request and reproduces the halt bug.
//
// Simulated dimension: wake-up events after every idle length. HALT is executed under every
// IME x pending combination, followed by generated instructions; interrupt lines (enabled
// and not enabled) rise k machine cycles after the HALT, k from 0 upwards; key events arrive
// while the CPU idles. Real CPU in the real frame loop, reference SM83 in lock step.
type c05 struct{}

func init() { engine.Register(c05{}) }

func (c05) ID() string { return "C05" }

func (c05) Budget(tier string) int {
	if tier == "thorough" {
		return 600000
	}
	return 30000
}

func (c05) Describe() engine.Info {
	return engine.Info{
		Rule: "scenario = IE/IF/IME start state + [history] HALT <following instruction(s)> with interrupt lines raised k cycles after the HALT (k = 0..64 dense, then log-spaced to 100000), on enabled and on not-enabled lines, plus key events during the idle period. Classes: ime1 (dispatch on wake, 6 cycles), ime0-idle (resume without dispatch, IF untouched), ime0-pending (halt bug: following byte executed twice; following instructions restricted to register-only encodings so that the doubled byte stays a defined, harmless instruction). " +
			"Oracle: reference SM83 in lock step: halted state after every cycle, no instruction boundary advances PC while idle, wake only on an enabled request, dispatch length, PC/registers after the doubled instruction. Signature = (class, idle-length bucket, line enabled?, what followed)." +
			" Leaving HALT with the master enable clear may or may not cost a cycle of its own (the reference follows the real CPU); EI;HALT with a request pending: dispatch length 6. Class ime1-stack-on-ie: SP=0000/0001 before the HALT, so that the dispatch ending it pushes onto IE (handlers park).",
		Assumptions: []string{
			"leaving HALT with IME=0 costs one machine cycle before the next instruction (DMG behaviour pinned by mooneye halt_ime0_nointr_timing; the statement does not fix it)",
			"HALT directly after EI with a request already pending (class ime1-pending) is documented in more than one way for the DMG (return address at or after the HALT); only what all readings share is judged: one dispatch, each handler instruction once, request acknowledged, and the length of that dispatch (6 machine cycles: the statement gives the dispatch after HALT with the master enable set one extra cycle)",
		},
		RequiredProbes: []string{"ei_halt_pending", "irq_after_halt", "halt_idle_cycles", "halt_bug", "wake_dispatch", "wake_no_dispatch", "not_enabled_line_ignored"},
		RealComponents: realComponents, StubComponents: stubComponents,
		Sweeps: []string{"HALT followed by every lock-step opcode (cycled by index) in classes ime1 and ime0-idle"},
	}
}

// register-only single-byte opcodes: safe to execute twice and to follow a halt bug
var c05SafeOps = []uint8{0x00, 0x04, 0x05, 0x0c, 0x0d, 0x14, 0x15, 0x1c, 0x1d, 0x24, 0x25, 0x2c, 0x2d, 0x3c, 0x3d,
	0x07, 0x0f, 0x17, 0x1f, 0x27, 0x2f, 0x37, 0x3f, 0x41, 0x4a, 0x53, 0x5c, 0x65, 0x6f, 0x78, 0x79, 0x7a,
	0x80, 0x89, 0x92, 0x9b, 0xa4, 0xad, 0xb0, 0xb9, 0x03, 0x0b, 0x13, 0x1b, 0x09, 0x19}

func idleLength(r *engine.Rand) int64 {
	switch r.Intn(10) {
	case 0, 1, 2, 3, 4, 5:
		return int64(r.Intn(65))
	case 6, 7:
		return int64(r.Range(65, 2000))
	case 8:
		return int64(r.Range(2000, 20000))
	}
	return int64(r.Range(20000, 100000))
}

func (c05) Generate(r *engine.Rand, index int, tier string) *engine.Scenario {
	sc := &engine.Scenario{}
	g := &progGen{r: r, base: lsCodeWRAM}
	if r.Chance(1, 3) {
		g.base = lsCodeROM
	}
	g.emitStackSetup()
	for i, n := 0, r.Intn(3); i < n; i++ {
		g.emit(engine.Pick(r, c05SafeOps))
	}
	if index%16 == 15 {
		return genEIHalt(r, sc)
	}
	cls := index % 3
	ie := uint8(1<<uint(r.Intn(5))) | r.Byte()&0x1f&r.Byte()
	enabledLine := func() uint16 {
		for {
			l := r.Intn(5)
			if ie&(1<<uint(l)) != 0 {
				return uint16(l)
			}
		}
	}
	disabledLine := func() (uint16, bool) {
		for l := 0; l < 5; l++ {
			if ie&(1<<uint(l)) == 0 {
				return uint16(l), true
			}
		}
		return 0, false
	}
	iff := uint8(0)
	k := idleLength(r)
	switch cls {
	case 0: // IME=1: idle, then dispatch
		sc.Class = "ime1"
		sc.SetP("ime", 1)
		g.preOp = []byte{0x76}
		if r.Chance(1, 8) {
			// the dispatch that ends the HALT pushes onto IE (SP=0000: the high byte of the return address,
			// SP=0001: the low byte): the request that woke the CPU is the one dispatched; handlers park
			g.preOp = []byte{0x31, uint8(r.Intn(2)), 0x00, 0x76}
			sc.Class = "ime1-stack-on-ie"
		}
		g.emitUnit(lockstepOps[(index/3)%len(lockstepOps)], false, false)
	case 1: // IME=0, nothing pending: idle, resume without dispatch
		sc.Class = "ime0-idle"
		g.preOp = []byte{0x76}
		g.emitUnit(lockstepOps[(index/3)%len(lockstepOps)], false, false)
	default: // IME=0 with a request already pending: halt bug
		sc.Class = "ime0-pending"
		iff = 1 << enabledLine()
		g.emit(0x76)
		if r.Chance(1, 4) {
			// a CB-prefixed instruction behind the HALT: the prefix byte is the one fetched twice, so CB CB
			// (SET 1,E) executes and the second byte then runs as an opcode of its own
			g.emit(0xcb)
		}
		g.emit(engine.Pick(r, c05SafeOps))
		if r.Bool() {
			// a two-byte immediate load whose operand byte is itself a safe opcode
			g.emit(engine.Pick(r, []uint8{0x06, 0x0e, 0x16, 0x1e, 0x26, 0x2e, 0x3e}), engine.Pick(r, c05SafeOps))
		}
		k = -1
	}
	// requests on lines that are not enabled must not wake the CPU
	if dl, ok := disabledLine(); ok && r.Chance(1, 2) {
		if r.Bool() {
			iff |= 1 << dl
		} else if k > 2 {
			sc.Events = append(sc.Events, engine.Event{K: "irq_h", A: dl, N: int64(r.Intn(int(k)))})
		}
	}
	if k >= 0 {
		sc.Events = append(sc.Events, engine.Event{K: "irq_h", A: enabledLine(), N: k})
		if r.Chance(1, 4) && sc.Class != "ime1-stack-on-ie" {
			sc.Events = append(sc.Events, engine.Event{K: "irq_h", A: enabledLine(), N: k + int64(r.Intn(4))})
		}
	}
	for i, n := 0, r.Intn(4); i < n; i++ {
		g.emit(engine.Pick(r, c05SafeOps))
	}
	g.emit(0x00, 0x00)
	g.finish()
	lsScenario(sc, r, g)
	if sc.Class == "ime1-stack-on-ie" {
		sc.Cart.Handler = "18fe"
	}
	sc.SetP("ie", int64(ie)|int64(r.Byte()&0xe0))
	sc.SetP("if", int64(iff))
	// a key event while idling must not wake the CPU (the joypad line is never raised by the emulator)
	if k > 8 && r.Chance(1, 3) {
		sc.Events = append(sc.Events, engine.Event{At: uint64(len(g.code)) + uint64(r.Intn(int(k))), K: "key", A: uint16(r.Intn(8)), V: uint8(r.Intn(2))})
	}
	if k < 0 {
		k = 0
	}
	sc.Cycles = uint64(len(g.code))*3 + uint64(k) + 96
	return sc
}

// genEIHalt: HALT with the master enable set and an enabled request already pending, which a
// guest reaches through the delayed effect of EI (EI directly followed by HALT). What the DMG
// does with the return address in this corner is documented in more than one way, so only what
// all readings share is judged: the request is dispatched exactly once, every instruction of
// the handler executes exactly once, the request flag is acknowledged and no instruction after
// the HALT executes more often than the halt bug could explain.
func genEIHalt(r *engine.Rand, sc *engine.Scenario) *engine.Scenario {
	sc.Class = "ime1-pending"
	line := r.Intn(5)
	var code []byte
	sp := uint16(r.Range(lsStackLo+0x40, lsStackHi-0x40))
	code = append(code, 0x31, byte(sp), byte(sp>>8), 0x06, 0x00, 0x0e, 0x00)
	for i, n := 0, r.Intn(4); i < n; i++ {
		code = append(code, engine.Pick(r, []uint8{0x00, 0x3c, 0x14, 0x1c, 0x2f, 0x37}))
	}
	pre := len(code)
	code = append(code, 0xfb, 0x76, 0x0c, 0x0c)
	for i, n := 0, r.Intn(4); i < n; i++ {
		code = append(code, 0x00)
	}
	code = append(code, 0x18, 0xfe)
	sc.Cart = engine.CartSpec{Kind: "rom", Program: "18fe", FillSeed: r.U64(), Handler: "04d9"} // INC B ; RETI
	sc.SetStr("prog", engine.Hex(code))
	sc.SetP("line", int64(line))
	sc.SetP("ie", int64(1<<uint(line))|int64(r.Byte()&0xe0))
	sc.SetP("halt_at", int64(lsCodeWRAM)+int64(pre)+1)
	sc.Cycles = uint64(len(code))*2 + 64 + uint64(r.Intn(64))
	return sc
}

func executeEIHalt(sc *engine.Scenario, res *engine.Result) *engine.Result {
	m := build(sc, res)
	if m == nil {
		return res
	}
	m.GuardUndefined = true
	m.Park()
	m.Write(0xff40, 0x00) // no VBlank/STAT requests of its own
	code := engine.UnHex(sc.Str("prog"))
	for i, b := range code {
		m.Write(lsCodeWRAM+uint16(i), b)
	}
	line := uint(sc.P("line", 0))
	m.Write(0xffff, uint8(sc.P("ie", 0)))
	m.Write(0xff0f, 1<<line)
	rg := m.CPU.VerifGetRegs()
	rg.PC = lsCodeWRAM
	m.CPU.VerifSetRegs(rg)
	// the HALT is instruction number 3 + fillers + 2 of the program; the dispatch that follows it is
	// "the request dispatched after HALT with the master enable set": one machine cycle longer (6)
	haltNo := 3 + (int(sc.P("halt_at", 0)) - 1 - lsCodeWRAM - 7) + 2
	vector := uint16(0x40 + 8*sc.P("line", 0))
	instrs, haltEnd, vecAt := 0, uint64(0), uint64(0)
	m.OnCycle = func() {
		if !m.CPU.VerifAtBoundary() {
			return
		}
		instrs++
		if instrs == haltNo {
			haltEnd = m.N
		}
		if vecAt == 0 && haltEnd != 0 && m.CPU.VerifGetRegs().PC == vector {
			vecAt = m.N
		}
	}
	pi := machine.Protect(func() { m.RunCycles(sc.Cycles) })
	res.Cycles = m.N
	if pi != nil {
		if pi.Emulator {
			res.Fail("C05/panic/"+pi.Site, m.N, "emulator panicked: %s", pi.Value)
		} else {
			res.Harness = pi.Value + "\n" + pi.Stack
		}
		return res
	}
	rg = m.CPU.VerifGetRegs()
	iff := m.Read(0xff0f)
	haltAt := uint16(sc.P("halt_at", 0))
	res.Probe("ei_halt_pending")
	where := fmt.Sprintf("EI;HALT at %04x with IE&IF=%02x already pending: after %d cycles B=%d (handler = INC B;RETI) C=%d (two INC C follow the HALT) PC=%04x halted=%v IF=%02x", haltAt-1, 1<<line, sc.Cycles, rg.B, rg.C, rg.PC, m.CPU.VerifHalted(), iff)
	switch {
	case rg.B == 0:
		res.Fail("C05/ime1-pending/not-dispatched", m.N, "%s: the pending enabled request was never dispatched", where)
	case rg.B != 1:
		res.Fail("C05/ime1-pending/handler-instruction-repeated", m.N, "%s: the handler's first instruction executed %d times for one request", where, rg.B)
	case iff&(1<<line) != 0:
		res.Fail("C05/ime1-pending/not-acknowledged", m.N, "%s: the request flag is still set", where)
	case vecAt != 0 && vecAt-haltEnd != 6:
		res.Fail("C05/ime1-pending/dispatch-length", m.N, "%s: the dispatch out of the HALT took %d machine cycles (HALT finished at cycle %d, handler reached at cycle %d); after HALT with the master enable set the dispatch takes one extra machine cycle: 6", where, vecAt-haltEnd, haltEnd, vecAt)
	case !(rg.C == 2 || rg.C == 3 || (rg.C == 0 && m.CPU.VerifHalted())):
		res.Fail("C05/ime1-pending/following-instructions", m.N, "%s: the instructions after the HALT did not execute once each (or twice for the first, or not at all with the CPU idling in a re-executed HALT)", where)
	}
	res.Sig(fmt.Sprintf("ime1-pending/line%d/C=%d/halted=%v", line, rg.C, m.CPU.VerifHalted()))
	res.Digest = uint64(rg.B)<<32 | uint64(rg.C)<<24 | uint64(rg.PC)<<8 | uint64(iff)
	return res
}

func (c05) Execute(sc *engine.Scenario) *engine.Result {
	res := &engine.Result{}
	if sc.Class == "ime1-pending" {
		return executeEIHalt(sc, res)
	}
	l := newLockstep(sc, res)
	if l == nil {
		return res
	}
	idle := 0
	afterHalt := 0 // instructions since the HALT executed
	bug := false
	l.onInstr = func(l *lockstep, realCycles int, mism []lsMismatch) bool {
		key := l.opKey()
		kind := l.ref.Kind
		inHaltPart := kind == "halt-idle" || kind == "halt-wake" || key == "76" || (afterHalt > 0 && afterHalt <= 3) || (kind == "dispatch" && realCycles != 5) || l.ref.Cycles == 6
		late := l.acceptLateVector(realCycles)
		for _, mm := range mism {
			switch mm.kind {
			case "undefined":
				res.Harness = mm.detail
				return false
			case "flags-low", "stuck":
				continue
			case "regs", "if":
				if late {
					continue
				}
			}
			switch mm.kind {
			case "cycles", "buswrite-cycle", "busread-cycle":
				// lengths of ordinary instructions are C02's; the wake-up and the dispatch out of HALT are judged here
				if kind == "instr" && key != "76" {
					continue
				}
			case "regs", "mem", "if", "ie", "buswrite", "buswrite-missing", "busread":
				if !inHaltPart {
					continue // not related to HALT: C01/C04
				}
			}
			cls := "C05/" + mm.kind + "/" + sc.Class
			switch {
			case mm.kind == "halted" && l.m.CPU.VerifHalted():
				cls = "C05/idles-when-it-must-not/" + sc.Class
			case mm.kind == "halted":
				cls = "C05/woke-without-enabled-request/" + sc.Class
			case kind == "dispatch":
				cls = "C05/wake-dispatch-" + mm.kind
			}
			res.Fail(cls, l.m.N, "%s", mm.detail)
			return false
		}
		switch kind {
		case "halt-idle":
			idle++
			res.Probe("halt_idle_cycles")
			if l.ifReg != 0 {
				res.Probe("not_enabled_line_ignored")
			}
		case "halt-wake":
			res.Probe("wake_no_dispatch")
		case "dispatch":
			if l.ref.Cycles == 6 {
				res.Probe("wake_dispatch")
			}
		case "instr":
			if key == "76" {
				afterHalt = 0
				if l.ref.HaltBug {
					bug = true
					res.Probe("halt_bug")
				}
			}
		}
		if afterHalt == 1 && kind == "instr" {
			b := "idle<=1"
			switch {
			case idle > 1000:
				b = "idle>1000"
			case idle > 64:
				b = "idle>64"
			case idle > 8:
				b = "idle>8"
			case idle > 1:
				b = "idle>1"
			}
			res.Sig(fmt.Sprintf("%s/%s/bug=%v/then-%s", sc.Class, b, bug, key))
		}
		if kind != "halt-idle" {
			afterHalt++
		}
		if key == "18" && l.ref.PC == l.ref.OpPC && l.haltAt != 0 {
			return false
		}
		return true
	}
	l.run(sc.Cycles)
	return res
}
