package props

import (
	"fmt"

	"verifsim/cart"
	"verifsim/dmgref"
	"verifsim/engine"
)

// C16 — an OAM DMA transfer copies 160 bytes and blocks OAM meanwhile.
//
// Simulated dimension: the DMA engine as a party running beside a scripted bus master. The
// scheduler starts transfers from every source page, restarts running transfers at arbitrary
// cycles, switches ROM banks and rewrites source bytes while the copy runs, and reads
// FE00-FEFF after every cycle.
type c16 struct{}

func init() { engine.Register(c16{}) }

func (c16) PostGenerate(r *engine.Rand, sc *engine.Scenario) {
	chooseEnv(r, sc)
	if r.Chance(1, 3) {
		addOtherUnitEvents(r, sc, exclDMA)
	}
}

func (c16) ID() string { return "C16" }

func (c16) Budget(tier string) int {
	if tier == "thorough" {
		return 600000
	}
	return 12100
}

func (c16) Describe() engine.Info {
	return engine.Info{
		Rule: "scenario = MBC1 cartridge (8 ROM pages, 4 RAM banks, RAM enabled) with random contents everywhere + FF46 write with page XX (every page 00-F1 enumerated by index, then random) + 0..3 restarts (same or other page) at random cycles of the running transfer + 0..4 source-byte writes / ROM or RAM bank switches during the transfer; OAM is read over the bus at three addresses (FE00-FE9F and FEA0-FEFF) after every cycle. " +
			"Oracle: 162 cycles after the last start OAM holds, byte for byte, a value the source byte had during that transfer; reads of FE00-FEFF return FF from cycle 2 to 160 of a running transfer (0, 1, 161: either) and data / 00 afterwards; nothing else changes OAM. Signature = (source region, restarted?, restart phase class, source changed during transfer?)." +
			" The LCD may be switched (or LCDC rewritten) while the transfer runs. Environment dimensions as C12. One scenario in eight (after the sweep) first stores a value F2-FF and replaces that transfer within 161 cycles by a proper one, which is judged; one in five stores into OAM cells from the CPU while the transfer runs (LCD off), aimed at the cell being copied: 162 cycles all the same. Classes dma-pointer-traffic (INC DE / DEC DE with DE inside OAM in the first cycles of the transfer, LCD on), dma-hram-routine (the CPU runs the customary routine out of high RAM; the start is taken from the bus tap), MBC3 (clock halted or running) and MBC5 cartridges. A source byte that changes during the transfer may be old or new only within two cycles of its copy cycle; MBC1 cartridges of 1-2 MiB in mode 1 (0000-3FFF remapped).",
		Assumptions:    []string{"LCD off (OAM otherwise plain) in two thirds of the scenarios; in the others the LCD is on, OAM is read only while the transfer blocks it, and the result is judged through the side-effect-free accessor; the CPU is parked in high RAM", "a source byte changed while the copy runs may be copied old or new"},
		RequiredProbes: []string{"lcd_switched_during_transfer", "oam_read_during_transfer_in_mode2", "dma_started", "dma_restarted_while_running", "source_changed_during_transfer", "oam_read_during_transfer", "echo_source", "out_of_range_value_then_restart", "oam_store_during_transfer", "pointer_traffic_during_transfer", "cartridge_clock_halted", "dma_started_by_the_cpu_routine", "mbc1_mode1_low_window_remapped"},
		RealComponents: realComponents, StubComponents: stubComponents,
		Sweeps: []string{"every source page 00-F1 (indices 0..241)"},
	}
}

func (c16) Generate(r *engine.Rand, index int, tier string) *engine.Scenario {
	sc := &engine.Scenario{Class: "dma"}
	sc.Cart = engine.CartSpec{Kind: "mbc1", Type: cart.TypeFor("mbc1", true), RomCode: 2, RamCode: 3, Program: "18fe", FillSeed: r.U64()}
	sc.SetP("fill", int64(r.U64()>>1))
	if index%7 == 3 {
		// an MBC3 cartridge with its clock running or halted, or an MBC5: the transfer is the same
		if r.Chance(2, 3) {
			sc.Cart.Kind, sc.Cart.Type = "mbc3", 0x10
			sc.SetP("rtc_halt", int64(r.Intn(2)))
		} else {
			sc.Cart.Kind, sc.Cart.Type = "mbc5", 0x1b
		}
	}
	bigMBC1 := index%7 == 5 && index >= 0xf2
	if bigMBC1 {
		// an MBC1 cartridge of 1 or 2 MiB in mode 1: the upper bank bits also choose the page seen at
		// 0000-3FFF, before and during transfers out of that window
		sc.Cart.RomCode = uint8(r.Range(5, 6))
		sc.SetP("mbc1_mode1", 1)
		sc.SetP("mbc1_bank2", int64(r.Intn(4)))
	}
	page := uint8(r.Intn(0xf2))
	if bigMBC1 && r.Chance(2, 3) {
		page = uint8(r.Intn(0x40))
	}
	if index < 0xf2 {
		page = uint8(index)
	}
	at := uint64(r.Range(1, 40))
	first := page
	nRestart := []int{0, 0, 1, 1, 2, 3}[r.Intn(6)]
	if index >= 0xf2 && r.Chance(1, 8) {
		// a value outside 00-F1 first (what such a transfer copies is nobody's business), replaced while
		// it runs by a transfer from a proper page: that one is judged like any other
		first = uint8(r.Range(0xf2, 0xff))
		if nRestart == 0 {
			nRestart = 1
		}
	}
	sc.Events = append(sc.Events, engine.Event{At: at, K: "bus_w", A: 0xff46, V: first, S: "dma"})
	last := at
	for i, n := 0, nRestart; i < n; i++ {
		d := uint64(r.Range(1, 170))
		if first >= 0xf2 && i == 0 {
			d = uint64(r.Range(1, 161))
		}
		if r.Chance(1, 3) {
			d = uint64([]int{1, 2, 3, 159, 160, 161, 162, 163}[r.Intn(8)])
		}
		last += d
		p := page
		if r.Bool() {
			p = uint8(r.Intn(0xf2))
		}
		sc.Events = append(sc.Events, engine.Event{At: last, K: "bus_w", A: 0xff46, V: p, S: "dma"})
		page = p
	}
	// disturbances during the (last) transfer
	for i, n := 0, r.Intn(5); i < n; i++ {
		t := last + uint64(r.Range(1, 165))
		switch r.Intn(5) {
		case 4:
			// the LCD is switched (off or on, or LCDC rewritten) while the transfer runs: the DMA engine
			// finishes its copy and keeps OAM blocked meanwhile all the same
			sc.Events = append(sc.Events, engine.Event{At: t, K: "bus_w", A: 0xff40, V: engine.Pick(r, []uint8{0x11, 0x91, 0x00, 0x93, 0x80}), S: "lcdc"})
		case 0:
			sc.Events = append(sc.Events, engine.Event{At: t, K: "bus_w", A: 0x2000 + uint16(r.Intn(0x2000)), V: r.Byte(), S: "rombank"})
		case 1:
			sc.Events = append(sc.Events, engine.Event{At: t, K: "bus_w", A: 0x4000 + uint16(r.Intn(0x2000)), V: r.Byte(), S: "bank2"})
		default:
			// rewrite a byte of the current source page (if it is RAM)
			src := uint16(page) << 8
			if src >= 0xe000 {
				src -= 0x2000
			}
			sc.Events = append(sc.Events, engine.Event{At: t, K: "bus_w", A: src + uint16(r.Intn(0xa0)), V: r.Byte(), S: "src"})
		}
	}
	if r.Chance(1, 5) {
		// the CPU stores into OAM while the transfer runs (LCD off only: no OAM scan to disturb): the
		// transfer takes its 162 cycles all the same, and the cell ends up holding the source byte or,
		// if the store got through after the cell was copied, the stored byte
		sc.SetP("oam_stores", 1)
		for i, n := 0, r.Range(1, 4); i < n; i++ {
			k := r.Range(1, 162)
			cell := k - 2 + r.Range(-1, 1)
			if r.Chance(1, 3) {
				cell = r.Intn(0xa0)
			}
			if cell < 0 {
				cell = 0
			}
			if cell > 0x9f {
				cell = 0x9f
			}
			sc.Events = append(sc.Events, engine.Event{At: last + uint64(k), K: "bus_w", A: 0xfe00 + uint16(cell), V: r.Byte(), S: "oamstore"})
		}
	}
	sortEvents(sc.Events)
	for i := 1; i < len(sc.Events); i++ {
		if sc.Events[i].At <= sc.Events[i-1].At {
			sc.Events[i].At = sc.Events[i-1].At + 1
		}
	}
	if sc.P("oam_stores", 0) == 0 && r.Chance(1, 3) {
		// LCD on: the transfer is longer than a scan line, so it overlaps the PPU's own OAM scan
		sc.SetP("lcd", 1)
		sc.SetP("lcd_lead", int64(r.Range(1, 600)))
	}
	sc.Cycles = sc.Events[len(sc.Events)-1].At + 200
	if index%10 == 4 && index >= 0xf2 {
		// the way cartridges do it: the CPU itself runs the customary routine out of high RAM
		// (LD A,page ; LDH (46),A ; LD A,28 ; DEC A ; JR NZ,-3 ; RET) - the FF46 stores of the schedule
		// become calls of that routine
		sc.Class = "dma-hram-routine"
		sc.SetP("routine", 1)
		var keep []engine.Event
		lastDMA := uint64(0)
		for _, e := range sc.Events {
			if e.S == "dma" {
				if e.V >= 0xf2 || (lastDMA != 0 && e.At < lastDMA+190) {
					continue // one call at a time, proper pages only
				}
				lastDMA = e.At
			}
			if e.S == "oamstore" {
				continue
			}
			keep = append(keep, e)
		}
		sc.Events = keep
		sc.SetP("oam_stores", 0)
		sc.SetP("env.park", 0)
	}
	if index%10 == 9 && sc.P("oam_stores", 0) == 0 {
		// the CPU is busy with a register pair that points into OAM (INC DE / DEC DE) during the first
		// cycles of the last transfer, LCD on: whatever that does to OAM rows, the transfer copies over
		// them afterwards and OAM ends up holding the source bytes
		sc.Class = "dma-pointer-traffic"
		sc.SetP("lcd", 1)
		if sc.P("lcd_lead", 0) == 0 {
			sc.SetP("lcd_lead", int64(r.Range(1, 600)))
		}
		sc.SetP("ptr_traffic", int64(r.Range(1, 2)))
		sc.SetP("ptr_at", 0xfe08+int64(r.Intn(0x98)))
		sc.SetP("env.park", 0)
	}
	if index%40 == 7 {
		// long after the transfer: the source page is rewritten and nothing is started for more than
		// 65,536 machine cycles; OAM keeps what was copied
		sc.Class = "dma-then-long-idle"
		src := uint16(page) << 8
		if src >= 0xe000 {
			src -= 0x2000
		}
		at := sc.Cycles
		for i := 0; i < 6; i++ {
			at += uint64(r.Range(1, 9))
			sc.Events = append(sc.Events, engine.Event{At: at, K: "bus_w", A: src + uint16(r.Intn(0xa0)), V: r.Byte(), S: "src"})
		}
		sc.Cycles = at + 66000 + uint64(r.Intn(70000))
	}
	return sc
}

func (c16) Execute(sc *engine.Scenario) *engine.Result {
	res := &engine.Result{}
	m := build(sc, res)
	if m == nil {
		return res
	}
	img, _ := cartBuild(sc.Cart)
	ct := dmgref.NewCart(img)
	var mem [0x10000]byte // reference view of VRAM, WRAM
	m.Write(0xff40, 0x00)
	m.Write(0x0000, 0x0a) // enable cartridge RAM
	ct.Write(0x0000, 0x0a)
	m.Write(0x6000, 0x01) // MBC1 mode 1 so that RAM banks and the low ROM area follow BANK2
	ct.Write(0x6000, 0x01)
	fr := engine.NewRand(uint64(sc.P("fill", 1)))
	for a := 0x8000; a < 0xa000; a++ {
		v := fr.Byte()
		m.Write(uint16(a), v)
		mem[a] = v
	}
	for b := 0; b < 4; b++ {
		m.Write(0x4000, uint8(b))
		ct.Write(0x4000, uint8(b))
		for a := 0xa000; a < 0xc000; a += 1 {
			v := fr.Byte()
			m.Write(uint16(a), v)
			ct.Write(uint16(a), v)
		}
	}
	m.Write(0x4000, 0)
	ct.Write(0x4000, 0)
	for a := 0xc000; a < 0xe000; a++ {
		v := fr.Byte()
		m.Write(uint16(a), v)
		mem[a] = v
	}
	var oamInit [0xa0]byte
	for i := range oamInit {
		oamInit[i] = fr.Byte()
	}
	m.OAM.VerifPoke(oamInit)
	if sc.P("mbc1_mode1", 0) != 0 {
		for _, w := range [][2]int{{0x6000, 0x01}, {0x4000, int(sc.P("mbc1_bank2", 0))}} {
			m.Write(uint16(w[0]), uint8(w[1]))
			ct.Write(uint16(w[0]), uint8(w[1]))
		}
		res.Probe("mbc1_mode1_low_window_remapped")
	}
	if sc.Cart.Kind == "mbc3" && sc.P("rtc_halt", 0) != 0 {
		for _, w := range [][2]int{{0x0000, 0x0a}, {0x4000, 0x0c}, {0xa000, 0x40}, {0x4000, 0x00}} {
			m.Write(uint16(w[0]), uint8(w[1]))
			ct.Write(uint16(w[0]), uint8(w[1]))
		}
		res.Probe("cartridge_clock_halted")
	}
	park(sc, m, res)
	lcdOn := sc.P("lcd", 0) != 0
	if lcdOn {
		m.Write(0xff40, 0x91)
		m.RunCycles(uint64(sc.P("lcd_lead", 1)))
	}
	t0 := m.N
	srcByte := func(a uint16) uint8 {
		switch {
		case a < 0x8000, a >= 0xa000 && a < 0xc000:
			v, _ := ct.Read(a)
			return v
		case a >= 0xe000:
			return mem[a-0x2000]
		}
		return mem[a]
	}
	// transfer bookkeeping
	running := false
	var start uint64
	var srcBase uint16
	allowed := make([]map[uint8]bool, 0xa0) // values each source byte had during the transfer
	expect := oamInit                       // OAM contents when no transfer is running
	snapshot := func() {
		// byte i is fetched and stored around cycle i+2 of the transfer: what the source byte holds in the
		// cycles around that (two either way) is what OAM may end up holding - not what it held long
		// before (a transfer that fetched everything up front) or long after
		el := int(m.N - start)
		for i := 0; i < 0xa0; i++ {
			if allowed[i] == nil {
				allowed[i] = map[uint8]bool{}
			}
			if i+2 < el-2 || i+2 > el+2 {
				if len(allowed[i]) > 0 || i+2 > el+2 {
					continue
				}
			}
			allowed[i][srcByte(srcBase+uint16(i))] = true
		}
	}
	region := func(p uint8) string {
		switch {
		case p < 0x40:
			return "rom0"
		case p < 0x80:
			return "romN"
		case p < 0xa0:
			return "vram"
		case p < 0xc0:
			return "cartram"
		case p < 0xe0:
			return "wram"
		}
		return "echo"
	}
	restarted, changed := false, false
	trafficPending := 0
	routinePending, routinePage := false, uint8(0)
	invalid := false // the running transfer was started with a value outside 00-F1: not judged
	phase := ""
	dg := engine.NewDigest()
	ok := true
	ei := 0
	observe := func() {
		n := m.N
		if running && invalid {
			if n-start >= 170 {
				// nothing replaced it: whatever it left in OAM is the contents from now on
				expect = m.PeekOAM()
				running, invalid = false, false
			}
			return
		}
		// three OAM reads per cycle: fixed, data area, unusable area
		addrs := []uint16{0xfe00, 0xfe00 + uint16((n*7)%0xa0), 0xfea0 + uint16((n*5)%0x60)}
		if lcdOn {
			// with the LCD on a read of FE00-FEFF is only free of effects on OAM while a transfer
			// blocks it: read (once per cycle) only then
			addrs = addrs[1:2]
			if !(running && n-start >= 2 && n-start <= 160) {
				addrs = nil
			} else if m.PPU.VerifMode() == 2 {
				res.Probe("oam_read_during_transfer_in_mode2")
			}
		}
		for _, a := range addrs {
			v := m.Read(a)
			dg.Byte(v)
			if running {
				el := n - start
				if el >= 2 && el <= 160 {
					res.Probe("oam_read_during_transfer")
					if v != 0xff {
						res.Fail("C16/oam-readable-during-transfer", n, "read of %04x returned %02x in cycle %d of a running transfer (page %02x), expected ff", a, v, el, srcBase>>8)
						ok = false
						return
					}
				}
			} else {
				want := uint8(0)
				if a < 0xfea0 {
					want = expect[a-0xfe00]
				}
				if v != want {
					res.Fail("C16/oam-read-after-transfer", n, "read of %04x returned %02x with no transfer running, expected %02x", a, v, want)
					ok = false
					return
				}
			}
		}
		if running && n-start >= 162 {
			// the copy must be complete now
			o := m.PeekOAM()
			for i := 0; i < 0xa0; i++ {
				if !allowed[i][o[i]] {
					res.Fail("C16/wrong-copy/"+region(uint8(srcBase>>8)), n, "162 cycles after writing %02x to FF46, OAM[%02x]=%02x but the source byte %04x was %v during the transfer (restarted=%v)", srcBase>>8, i, o[i], srcBase+uint16(i), keys(allowed[i]), restarted)
					ok = false
					return
				}
			}
			expect = o
			running = false
			res.Sig(fmt.Sprintf("%s/restarted=%v%s/changed=%v", region(uint8(srcBase>>8)), restarted, phase, changed))
		} else if !running {
			o := m.PeekOAM()
			if o != expect {
				res.Fail("C16/oam-changed-without-transfer", n, "OAM changed although no transfer is running")
				ok = false
			}
		}
	}
	if sc.P("routine", 0) != 0 {
		// the DMA is started by the CPU's own store: the bus tap (hook H4) tells when
		m.TapBus()
		m.OnBusWrite = func(a uint16, v uint8) {
			if a != 0xff46 {
				return
			}
			running, start, invalid = true, m.N, false
			srcBase = uint16(v) << 8
			for i := range allowed {
				allowed[i] = nil
			}
			changed, restarted = false, false
			snapshot()
			res.Probe("dma_started")
			res.Probe("dma_started_by_the_cpu_routine")
			res.Fault("dma_start")
		}
	}
	m.OnCycle = func() {
		if routinePending && m.CPU.VerifAtBoundary() && !running {
			code := []byte{0x3e, routinePage, 0xe0, 0x46, 0x3e, 0x28, 0x3d, 0x20, 0xfd, 0xc9}
			for i, b := range code {
				m.Write(0xff80+uint16(i), b)
			}
			m.Write(0xffa0, 0xfc) // return address: the parking loop
			m.Write(0xffa1, 0xff)
			rg := m.CPU.VerifGetRegs()
			rg.SP, rg.PC = 0xffa0, 0xff80
			m.CPU.VerifSetRegs(rg)
			routinePending = false
		}
		if trafficPending > 0 && running && m.N-start <= 3 && m.CPU.VerifAtBoundary() && !m.CPU.VerifHalted() && !m.CPU.VerifStopped() {
			// the parked CPU turns to a short run of INC DE / DEC DE with DE inside OAM, then parks again
			code := []byte{}
			for i := 0; i < trafficPending; i++ {
				code = append(code, 0x13, 0x1b)
			}
			code = append(code, 0x18, 0xfe)
			for i, b := range code {
				m.Write(0xfff0+uint16(i), b)
			}
			rg := m.CPU.VerifGetRegs()
			p := uint16(sc.P("ptr_at", 0xfe50))
			rg.D, rg.E, rg.PC = uint8(p>>8), uint8(p), 0xfff0
			m.CPU.VerifSetRegs(rg)
			trafficPending = 0
			res.Probe("pointer_traffic_during_transfer")
			res.Fault("cpu_pointer_traffic")
		}
		if running {
			snapshot()
		}
		if ok {
			observe()
			if !ok {
				m.Stop()
			}
		}
	}
	for m.N < t0+sc.Cycles && ok {
		for ei < len(sc.Events) && t0+sc.Events[ei].At <= m.N {
			ev := sc.Events[ei]
			ei++
			if applyOther(m, &ev, res) {
				continue
			}
			if ev.S == "dma" && sc.P("routine", 0) != 0 {
				if m.CPU.VerifHalted() || m.CPU.VerifStopped() || routinePending {
					continue
				}
				// call the routine as soon as the parked CPU is between two instructions
				routinePending, routinePage = true, ev.V
				continue
			}
			switch ev.S {
			case "dma":
				if running {
					restarted = true
					el := m.N - start
					switch {
					case el <= 2:
						phase = "/early"
					case el >= 159:
						phase = "/late"
					default:
						phase = "/mid"
					}
					res.Probe("dma_restarted_while_running")
				}
				running = true
				start = m.N
				if n := int(sc.P("ptr_traffic", 0)); n > 0 && !invalidNext(sc.Events[ei:]) {
					trafficPending = n
				}
				invalid = ev.V >= 0xf2
				if invalid {
					res.Probe("out_of_range_value_then_restart")
				}
				srcBase = uint16(ev.V) << 8
				if ev.V >= 0xe0 {
					res.Probe("echo_source")
				}
				for i := range allowed {
					allowed[i] = nil
				}
				// a restart abandons the old copy: bytes already copied stay, so the previous
				// contents are acceptable only until the new copy overwrites them — after 162
				// cycles every byte must come from the new source
				changed = false
				snapshot()
				res.Probe("dma_started")
				res.Fault("dma_start")
			case "oamstore":
				if lcdOn {
					continue // the OAM scan is none of this check's business
				}
				cell := int(ev.A - 0xfe00)
				if running {
					if allowed[cell] == nil {
						allowed[cell] = map[uint8]bool{}
					}
					allowed[cell][ev.V] = true
					res.Probe("oam_store_during_transfer")
				} else if !lcdOn {
					expect[cell] = ev.V
				}
				res.Fault("oam_store")
			case "lcdc":
				now := ev.V&0x80 != 0
				if running && now != lcdOn {
					res.Probe("lcd_switched_during_transfer")
				}
				lcdOn = now
				res.Fault("lcdc_write")
			case "rombank", "bank2":
				ct.Write(ev.A, ev.V)
				if running {
					changed = true
					res.Probe("source_changed_during_transfer")
				}
				res.Fault("bank_switch")
			case "src":
				switch {
				case ev.A < 0x8000, ev.A >= 0xa000 && ev.A < 0xc000:
					ct.Write(ev.A, ev.V)
				case ev.A >= 0x8000:
					mem[ev.A] = ev.V
				}
				if running {
					changed = true
					res.Probe("source_changed_during_transfer")
				}
				res.Fault("source_write")
			}
			m.Write(ev.A, ev.V)
			if running {
				snapshot()
			}
		}
		next := t0 + sc.Cycles
		if ei < len(sc.Events) && t0+sc.Events[ei].At < next {
			next = t0 + sc.Events[ei].At
		}
		if next <= m.N {
			next = m.N + 1
		}
		m.RunCycles(next - m.N)
	}
	res.Cycles = m.N
	res.Digest = uint64(dg)
	return res
}

// invalidNext reports whether another transfer is started by one of the remaining events (pointer
// traffic goes with the last transfer of a schedule only).
func invalidNext(rest []engine.Event) bool {
	for _, e := range rest {
		if e.S == "dma" {
			return true
		}
	}
	return false
}

func keys(m map[uint8]bool) []string {
	var out []string
	for k := range m {
		out = append(out, fmt.Sprintf("%02x", k))
	}
	sortStrings(out)
	return out
}

func sortStrings(x []string) {
	for i := 1; i < len(x); i++ {
		for j := i; j > 0 && x[j] < x[j-1]; j-- {
			x[j], x[j-1] = x[j-1], x[j]
		}
	}
}
