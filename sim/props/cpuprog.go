package props

import (
	"fmt"

	"github.com/scottyw/tetromino/gameboy/cpu"

	"verifsim/dmgref"
	"verifsim/engine"
)

// Shared generator and executor of C01 (instruction effects) and C02 (instruction length):
// the same lock-step executions, judged for different aspects.

// genCPUProgram builds a random program of n tested instructions.
func genCPUProgram(r *engine.Rand, sc *engine.Scenario, n int) {
	base := uint16(lsCodeWRAM)
	if r.Chance(1, 3) {
		base = lsCodeROM
	}
	g := &progGen{r: r, base: base}
	g.emitStackSetup()
	for i := 0; i < n; i++ {
		if r.Chance(1, 60) {
			// the register values with which the test ROMs shipped in the repository report their verdict
			// (B,C,D,E,H,L = 3,5,8,13,21,34 or 0x42 six times) and the self-loads those ROMs and debuggers
			// use as markers (LD B,B ...): ordinary one-cycle loads like any other
			if r.Bool() {
				g.emit(0x01, 0x05, 0x03, 0x11, 0x0d, 0x08, 0x21, 0x22, 0x15)
			} else {
				g.emit(0x01, 0x42, 0x42, 0x11, 0x42, 0x42, 0x21, 0x42, 0x42)
			}
			for j, k := 0, r.Range(1, 3); j < k; j++ {
				g.emit(engine.Pick(r, []uint8{0x40, 0x40, 0x49, 0x52, 0x5b, 0x64, 0x6d, 0x7f}))
				g.emit(engine.Pick(r, []uint8{0x00, 0x3c, 0x3d, 0x2f}))
			}
			continue
		}
		if r.Chance(1, 5) {
			// the tested instruction directly after a jump/call/return (see emitPair)
			cb := r.Chance(1, 2)
			op := r.Byte()
			if !cb {
				op = engine.Pick(r, lockstepOps)
			}
			if g.emitPair(engine.Pick(r, pairPrev), op, cb) {
				continue
			}
		}
		if r.Chance(2, 5) {
			g.emitUnit(r.Byte(), true, false)
		} else {
			g.emitUnit(engine.Pick(r, lockstepOps), false, false)
		}
	}
	g.finish()
	lsScenario(sc, r, g)
	sc.SetP("marks", int64(len(g.marks)))
	// perturbation: interrupt lines rising at arbitrary cycle offsets (dispatch is masked: IE=0)
	total := uint64(len(g.code)) * 2
	for i, k := 0, r.Intn(5); i < k; i++ {
		sc.Events = append(sc.Events, engine.Event{At: uint64(r.Intn(int(total) + 1)), K: "irq", A: uint16(r.Intn(5))})
	}
	if r.Chance(1, 4) {
		// the user presses and releases keys while the program runs (no interrupt comes of it)
		for i, k := 0, r.Range(1, 3); i < k; i++ {
			sc.Events = append(sc.Events, engine.Event{At: uint64(r.Intn(int(total) + 1)), K: "key", A: uint16(r.Intn(8)), V: uint8(r.Intn(2))})
		}
	}
	sortEvents(sc.Events)
	sc.Cycles = total*3 + 64
	if r.Chance(1, 2) {
		sc.SetP("ime", 1)
	}
	sc.SetP("if", int64(r.Byte()&0x1f))
}

func sortEvents(evs []engine.Event) {
	for i := 1; i < len(evs); i++ {
		for j := i; j > 0 && evs[j].At < evs[j-1].At; j-- {
			evs[j], evs[j-1] = evs[j-1], evs[j]
		}
	}
}

// ---- directed sweeps --------------------------------------------------------------------

type sweepFam struct {
	name  string
	code  []byte // the instruction
	cases int    // size of the complete case space
	// set fills the registers for case i; rnd supplies the unrelated registers
	set func(i int, rg *cpu.VerifRegs, rnd *engine.Rand)
	// place (control-flow families): writes the instruction of case i into plain memory and sets
	// PC (and SP) for it. Every instruction is then a case: the harness resets PC at each instruction
	// boundary, so whatever lies at the target of the jump is never executed.
	place func(i int, l *lockstep, rg *cpu.VerifRegs, rnd *engine.Rand)
}

// cfPC picks the address of a control-flow case: inside the code windows, at page ends, at the end of
// work RAM (operands fetched through the echo boundary) and at the top of high RAM (PC wraps past FFFF).
func cfPC(rnd *engine.Rand, size int) uint16 {
	switch rnd.Intn(8) {
	case 0:
		return uint16(0xc100 - rnd.Intn(size+2))
	case 1:
		return uint16(0xe000 - size - rnd.Intn(2))
	case 2:
		return uint16(0xffff - size - rnd.Intn(3))
	case 3:
		return uint16(rnd.Range(0xff80, 0xfff0))
	case 4:
		return uint16(0xc000 + rnd.Intn(4))
	}
	return uint16(rnd.Range(0xc000, 0xd800))
}

const cfNopAt = 0xdc00 // outside every window cfPC picks from, inside work RAM

func cfPlace(l *lockstep, rg *cpu.VerifRegs, pc uint16, code ...byte) {
	for i, b := range code {
		l.pokeBoth(pc+uint16(i), b)
	}
	rg.PC = pc
}

func cfStack(l *lockstep, rg *cpu.VerifRegs, rnd *engine.Rand, ret uint16) {
	rg.SP = uint16(rnd.Range(lsStackLo+0x40, lsStackHi-0x40))
	if rnd.Chance(1, 8) {
		rg.SP = 0xdaff - uint16(rnd.Intn(3)) // the two bytes straddle a page
	}
	l.pokeBoth(rg.SP, uint8(ret))
	l.pokeBoth(rg.SP+1, uint8(ret>>8))
}

func carryF(cin int, rnd *engine.Rand) uint8 {
	f := rnd.Byte() & 0xe0
	if cin != 0 {
		f |= 0x10
	}
	return f
}

var sweepFams = func() []sweepFam {
	var fs []sweepFam
	// 8-bit ALU: A x operand x carry-in, operand in register B and as (HL)-free immediate form
	for y := 0; y < 8; y++ {
		op := uint8(0x80 + y*8) // alu A,B
		fs = append(fs, sweepFam{name: fmt.Sprintf("alu%d", y), code: []byte{op}, cases: 131072,
			set: func(i int, rg *cpu.VerifRegs, rnd *engine.Rand) {
				rg.A, rg.B, rg.F = uint8(i), uint8(i>>8), carryF(i>>16&1, rnd)
			}})
	}
	// CB rotates/shifts/swap on every register choice z (not (HL)): value x carry
	for y := 0; y < 8; y++ {
		for _, z := range []uint8{0, 1, 2, 3, 4, 5, 7} {
			op := uint8(y*8) | z
			zz := z
			fs = append(fs, sweepFam{name: fmt.Sprintf("cbrot%d_%d", y, z), code: []byte{0xcb, op}, cases: 512,
				set: func(i int, rg *cpu.VerifRegs, rnd *engine.Rand) {
					setReg8(rg, zz, uint8(i))
					rg.F = carryF(i>>8&1, rnd)
				}})
		}
	}
	for _, op := range []uint8{0x07, 0x0f, 0x17, 0x1f, 0x2f, 0x37, 0x3f} { // RLCA RRCA RLA RRA CPL SCF CCF
		fs = append(fs, sweepFam{name: fmt.Sprintf("acc%02x", op), code: []byte{op}, cases: 256 * 16,
			set: func(i int, rg *cpu.VerifRegs, rnd *engine.Rand) {
				rg.A, rg.F = uint8(i), uint8(i>>8)<<4
			}})
	}
	// BIT/RES/SET n,r
	for x := 1; x <= 3; x++ {
		for n := 0; n < 8; n++ {
			z := uint8((x*3 + n) % 8)
			if z == 6 {
				z = 7
			}
			op := uint8(x<<6) | uint8(n<<3) | z
			zz := z
			fs = append(fs, sweepFam{name: fmt.Sprintf("bit%d_%d", x, n), code: []byte{0xcb, op}, cases: 512,
				set: func(i int, rg *cpu.VerifRegs, rnd *engine.Rand) {
					setReg8(rg, zz, uint8(i))
					rg.F = carryF(i>>8&1, rnd)
				}})
		}
	}
	// INC r / DEC r
	for _, z := range []uint8{0, 1, 2, 3, 4, 5, 7} {
		zz := z
		for _, base := range []uint8{0x04, 0x05} {
			fs = append(fs, sweepFam{name: fmt.Sprintf("incdec%02x_%d", base, z), code: []byte{base | z<<3}, cases: 512,
				set: func(i int, rg *cpu.VerifRegs, rnd *engine.Rand) {
					setReg8(rg, zz, uint8(i))
					rg.F = carryF(i>>8&1, rnd)
				}})
		}
	}
	// DAA: A x all 16 flag nibbles
	fs = append(fs, sweepFam{name: "daa", code: []byte{0x27}, cases: 4096,
		set: func(i int, rg *cpu.VerifRegs, rnd *engine.Rand) { rg.A, rg.F = uint8(i), uint8(i>>8)<<4 }})
	// 16-bit INC/DEC of each pair: every value
	for p := 0; p < 4; p++ {
		pp := p
		for _, base := range []uint8{0x03, 0x0b} {
			fs = append(fs, sweepFam{name: fmt.Sprintf("incdec16_%02x_%d", base, p), code: []byte{base | uint8(p)<<4}, cases: 65536,
				set: func(i int, rg *cpu.VerifRegs, rnd *engine.Rand) {
					setReg16(rg, pp, uint16(i))
					rg.F = rnd.Byte() & 0xf0
				}})
		}
	}
	// ADD SP,e and LD HL,SP+e: SP low byte x e, high byte sampled
	for _, op := range []uint8{0xe8, 0xf8} {
		oo := op
		for e := 0; e < 256; e++ {
			ee := uint8(e)
			fs = append(fs, sweepFam{name: fmt.Sprintf("spe%02x_%02x", oo, ee), code: []byte{oo, ee}, cases: 256 * 4,
				set: func(i int, rg *cpu.VerifRegs, rnd *engine.Rand) {
					hi := [4]uint16{0x0000, 0xff00, 0x7f00, uint16(rnd.Byte()) << 8}[i>>8&3]
					rg.SP = hi | uint16(uint8(i))
					rg.F = rnd.Byte() & 0xf0
				}})
		}
	}
	// ADD HL,rr: boundary-structured plus random pairs
	for p := 0; p < 4; p++ {
		pp := p
		fs = append(fs, sweepFam{name: fmt.Sprintf("addhl%d", p), code: []byte{0x09 | uint8(p)<<4}, cases: 8192,
			set: func(i int, rg *cpu.VerifRegs, rnd *engine.Rand) {
				edges := []uint16{0, 1, 0x0fff, 0x1000, 0x0800, 0x7fff, 0x8000, 0xffff, 0xf000, 0x00ff, 0x0100, 0xfffe}
				var a, b uint16
				if i < len(edges)*len(edges) {
					a, b = edges[i%len(edges)], edges[i/len(edges)]
				} else {
					a, b = rnd.EdgeU16(), rnd.EdgeU16()
				}
				rg.H, rg.L = uint8(a>>8), uint8(a)
				if pp != 2 {
					setReg16(rg, pp, b)
				}
				rg.F = rnd.Byte() & 0xf0
			}})
	}
	// ---- control flow: every target, every displacement, both outcomes of every condition ----
	for _, op := range []uint8{0x18, 0x20, 0x28, 0x30, 0x38} { // JR e / JR cc,e: e x flag nibble
		oo := op
		fs = append(fs, sweepFam{name: fmt.Sprintf("jr%02x", op), cases: 4096,
			set: func(i int, rg *cpu.VerifRegs, rnd *engine.Rand) { rg.F = uint8(i>>8) << 4 },
			place: func(i int, l *lockstep, rg *cpu.VerifRegs, rnd *engine.Rand) {
				cfPlace(l, rg, cfPC(rnd, 2), oo, uint8(i))
			}})
	}
	for _, op := range []uint8{0xc3, 0xc2, 0xca, 0xd2, 0xda, 0xcd, 0xc4, 0xcc, 0xd4, 0xdc} { // JP/CALL nn and cc
		oo := op
		fs = append(fs, sweepFam{name: fmt.Sprintf("jpcall%02x", op), cases: 4096,
			set: func(i int, rg *cpu.VerifRegs, rnd *engine.Rand) { rg.F = uint8(i&15) << 4 },
			place: func(i int, l *lockstep, rg *cpu.VerifRegs, rnd *engine.Rand) {
				nn := rnd.U16()
				if i&16 != 0 {
					nn = rnd.EdgeU16()
				}
				cfStack(l, rg, rnd, rnd.U16())
				cfPlace(l, rg, cfPC(rnd, 3), oo, uint8(nn), uint8(nn>>8))
			}})
	}
	for _, op := range []uint8{0xc9, 0xd9, 0xc0, 0xc8, 0xd0, 0xd8} { // RET / RETI / RET cc
		oo := op
		fs = append(fs, sweepFam{name: fmt.Sprintf("ret%02x", op), cases: 4096,
			set: func(i int, rg *cpu.VerifRegs, rnd *engine.Rand) { rg.F = uint8(i&15) << 4 },
			place: func(i int, l *lockstep, rg *cpu.VerifRegs, rnd *engine.Rand) {
				ret := rnd.U16()
				if i&16 != 0 {
					ret = rnd.EdgeU16()
				}
				cfStack(l, rg, rnd, ret)
				cfPlace(l, rg, cfPC(rnd, 1), oo)
			}})
	}
	for y := 0; y < 8; y++ { // RST
		oo := uint8(0xc7 | y<<3)
		fs = append(fs, sweepFam{name: fmt.Sprintf("rst%02x", oo), cases: 512,
			set: func(i int, rg *cpu.VerifRegs, rnd *engine.Rand) { rg.F = rnd.Byte() & 0xf0 },
			place: func(i int, l *lockstep, rg *cpu.VerifRegs, rnd *engine.Rand) {
				cfStack(l, rg, rnd, rnd.U16())
				cfPlace(l, rg, cfPC(rnd, 1), oo)
			}})
	}
	fs = append(fs, sweepFam{name: "jphl", cases: 65536, // JP (HL): every target
		set: func(i int, rg *cpu.VerifRegs, rnd *engine.Rand) {
			rg.H, rg.L, rg.F = uint8(i>>8), uint8(i), rnd.Byte()&0xf0
		},
		place: func(i int, l *lockstep, rg *cpu.VerifRegs, rnd *engine.Rand) { cfPlace(l, rg, cfPC(rnd, 1), 0xe9) }})
	fs = append(fs, sweepFam{name: "ldsphl", cases: 65536, // LD SP,HL: every value
		set: func(i int, rg *cpu.VerifRegs, rnd *engine.Rand) {
			rg.H, rg.L, rg.F = uint8(i>>8), uint8(i), rnd.Byte()&0xf0
		},
		place: func(i int, l *lockstep, rg *cpu.VerifRegs, rnd *engine.Rand) { cfPlace(l, rg, cfPC(rnd, 1), 0xf9) }})
	return fs
}()

func setReg8(rg *cpu.VerifRegs, z uint8, v uint8) {
	switch z {
	case 0:
		rg.B = v
	case 1:
		rg.C = v
	case 2:
		rg.D = v
	case 3:
		rg.E = v
	case 4:
		rg.H = v
	case 5:
		rg.L = v
	case 7:
		rg.A = v
	}
}

func setReg16(rg *cpu.VerifRegs, p int, v uint16) {
	switch p {
	case 0:
		rg.B, rg.C = uint8(v>>8), uint8(v)
	case 1:
		rg.D, rg.E = uint8(v>>8), uint8(v)
	case 2:
		rg.H, rg.L = uint8(v>>8), uint8(v)
	default:
		rg.SP = v
	}
}

const sweepChunk = 4096

// sweepChunks is the number of (family, chunk) pairs.
var sweepChunks = func() int {
	n := 0
	for _, f := range sweepFams {
		n += (f.cases + sweepChunk - 1) / sweepChunk
	}
	return n
}()

// genSweep builds the scenario of sweep chunk number idx.
func genSweep(r *engine.Rand, sc *engine.Scenario, idx int) {
	idx %= sweepChunks
	fi := 0
	for ; fi < len(sweepFams); fi++ {
		n := (sweepFams[fi].cases + sweepChunk - 1) / sweepChunk
		if idx < n {
			break
		}
		idx -= n
	}
	f := sweepFams[fi]
	g := &progGen{r: r, base: lsCodeWRAM}
	// the instruction repeated, then a jump back
	reps := 64
	if f.place != nil {
		reps = 0
	}
	for i := 0; i < reps; i++ {
		g.emit(f.code...)
	}
	g.emit16(0xc3, lsCodeWRAM)
	lsScenario(sc, r, g)
	sc.Class = "sweep"
	sc.SetP("fam", int64(fi))
	sc.SetP("first", int64(idx*sweepChunk))
	last := (idx + 1) * sweepChunk
	if last > f.cases {
		last = f.cases
	}
	sc.SetP("last", int64(last))
	sc.SetStr("fam_name", f.name)
	sc.Cycles = uint64(last-idx*sweepChunk)*8 + 64
}

// executeCPU runs a program or sweep scenario; focus selects which mismatch kinds count.
func executeCPU(id string, sc *engine.Scenario, focus map[string]bool) *engine.Result {
	res := &engine.Result{}
	l := newLockstep(sc, res)
	if l == nil {
		return res
	}
	sweep := sc.Class == "sweep"
	var fam sweepFam
	var caseI, caseLast int
	var rnd *engine.Rand
	jp := uint16(0)
	atNop := false
	nextCase := func() bool {
		if caseI >= caseLast {
			return false
		}
		rg := l.m.CPU.VerifGetRegs()
		rg.A, rg.B, rg.C, rg.D, rg.E, rg.H, rg.L = rnd.Byte(), rnd.Byte(), rnd.Byte(), rnd.Byte(), rnd.Byte(), rnd.Byte(), rnd.Byte()
		sp := rg.SP
		fam.set(caseI, &rg, rnd)
		if fam.place != nil {
			rg.SP = sp
			fam.place(caseI, l, &rg, rnd)
		} else if fam.code[0] != 0xe8 && fam.code[0] != 0xf8 && fam.code[0] != 0x33 && fam.code[0] != 0x3b && fam.code[0] != 0x39 {
			rg.SP = sp
		}
		rg.F &= 0xf0
		l.m.CPU.VerifSetRegs(rg)
		l.syncRegs()
		caseI++
		return true
	}
	if sweep {
		fam = sweepFams[sc.P("fam", 0)]
		caseI, caseLast = int(sc.P("first", 0)), int(sc.P("last", 0))
		rnd = engine.NewRand(uint64(sc.P("fill", 1)) ^ 0x5eed)
		jp = lsCodeWRAM + uint16(64*len(fam.code))
		if fam.place != nil {
			jp = 0
		}
		nextCase()
	}
	since := 0
	spins := 0
	l.onInstr = func(l *lockstep, realCycles int, mism []lsMismatch) bool {
		key := l.opKey()
		for _, mm := range mism {
			if mm.kind == "undefined" {
				res.Harness = mm.detail
				return false
			}
			if !focus[mm.kind] {
				continue
			}
			if sc.Class == "oam-pointer-lcd-on" && mm.kind == "if" {
				continue // the LCD raises its own requests
			}
			res.Fail(fmt.Sprintf("%s/%s/%s", id, mm.kind, key), l.m.N, "%s", mm.detail)
			return false
		}
		sig := key
		if l.ref.Kind == "instr" {
			if b0 := l.Read(l.ref.OpPC); isCond(b0) {
				tk, _ := dmgref.DocumentedCycles(b0, false)
				if l.ref.Cycles == tk {
					res.Probe("cond_taken")
					sig += "/taken"
				} else {
					res.Probe("cond_not_taken")
					sig += "/not-taken"
				}
			}
		}
		if l.irqMid {
			sig += "/irq-mid"
		}
		res.Sig(sig)
		if focus["stray"] {
			since++
			if since >= 48 {
				since = 0
				if mm := l.compareShadow(); mm != nil {
					res.Fail(id+"/stray-memory-change", l.m.N, "%s (within the last 48 instructions before %s)", mm.detail, l.describe())
					return false
				}
			}
		}
		if sweep {
			// the next instruction is a case unless it is the jump back
			if fam.place != nil {
				// Two steps per case. The emulator decides "instruction finished" of a conditional
				// instruction from the live flags, so the flags of the next case may only be set while
				// an unconditional instruction is the one just finished: first only PC moves (to a NOP),
				// then, at the boundary after the NOP, the case is set up.
				if !atNop {
					rg := l.m.CPU.VerifGetRegs()
					l.pokeBoth(cfNopAt, 0x00)
					rg.PC = cfNopAt
					l.m.CPU.VerifSetRegs(rg)
					atNop = true
					return caseI < caseLast
				}
				atNop = false
				return nextCase()
			}
			if l.m.CPU.VerifGetRegs().PC != jp {
				if !nextCase() {
					return false
				}
			}
			return true
		}
		// stop when the terminating loop has gone round a few times (a JR to itself is an instruction
		// like any other: three cycles each time, with the master enable set or clear)
		if key == "18" && l.ref.PC == l.ref.OpPC && l.ref.OpPC != 0xfffc {
			spins++
			if spins >= 4 {
				return false
			}
		}
		return true
	}
	l.run(sc.Cycles)
	if res.Violation == nil && res.Harness == "" && focus["stray"] {
		if mm := l.compareShadow(); mm != nil {
			res.Fail(id+"/stray-memory-change", l.m.N, "%s", mm.detail)
		}
	}
	if sweep {
		res.ProbeN("sweep_cases", caseI-int(sc.P("first", 0)))
	}
	res.ProbeN("instructions", l.instrs)
	return res
}
