package props

import (
	"fmt"

	"verifsim/engine"
)

// C17 — OAM is only altered by CPU writes, DMA, or the mode-2 OAM bug.
//
// Simulated dimension: the phase between the guest and the PPU party. Generated programs
// move BC/DE/HL/SP through FE00-FEFF (16-bit INC/DEC, PUSH/POP, loads and stores through
// pointers there) (a) after switching the LCD off at every cycle offset of a line and in
// every mode, (b) with the LCD on but synchronised by polling to VBlank or to mode 3/0.
// The real CPU runs in lock step with the reference CPU, whose shadow OAM only changes by
// documented CPU writes; the reference LCD timing says when mode 2 is active.
type c17 struct{}

func init() { engine.Register(c17{}) }

func (c17) ID() string { return "C17" }

func (c17) Budget(tier string) int {
	if tier == "thorough" {
		return 600000
	}
	return 12600
}

func (c17) Describe() engine.Info {
	return engine.Info{
		Rule: "class dma: the guest starts an OAM DMA from work RAM at each cycle offset of a line (index-enumerated), optionally switches the LCD off while it runs, waits for it to complete and then runs the pointer block (LCD off, or on in VBlank); class off: LCD on, k NOPs (k mod 114 enumerated by index, plus whole lines so that every mode incl. VBlank is hit), then the guest switches the LCD off and runs a block of 4..30 pointer operations in FE00-FEFF; class vblank: the guest polls LY until 144 and runs the block; class mode3: the guest polls STAT until mode 3 and runs a short block (finishes before the next mode 2). " +
			"Oracle: OAM (side-effect-free peek) equals the reference shadow OAM at every instruction boundary, except for instructions during which the reference LCD timing was in mode 2 with the LCD on (the bug is allowed there; the shadow is re-synchronised). Signature = (class, reference mode when the LCD went off / when the block ran, line-offset bucket, kind of pointer operation). Class code-in-oam: OAM is filled with one-cycle register instructions and a jump back, the guest jumps into it at each cycle offset of a line with the LCD on; OAM may change only in instructions that overlap the OAM scan. Class dma steps a register pair inside OAM in the first cycles of the transfer; class off also reaches the first lines of the second frame. Class mode3 may rewrite LCDC (objects on, then off) at the start of the OAM scan of the same line.",
		Assumptions:    []string{"class dma: OAM is not judged while a transfer started by the guest is in flight (166 cycles); afterwards it must equal the source page and then obeys the same rule", "the reference LCD timing decides whether an instruction overlapped mode 2 (one boundary of slack on each side)"},
		RequiredProbes: []string{"dma_started_in_mode2", "lcd_off_during_dma", "dma_completed", "lcd_off_in_mode2", "lcd_off_in_mode3", "lcd_off_in_mode0", "lcd_off_in_mode1", "pointer_op_lcd_off", "pointer_op_vblank", "pointer_op_mode3_0", "oam_write_by_cpu"},
		RealComponents: realComponents, StubComponents: stubComponents,
		Sweeps: []string{"LCD switched off at each of the 114 cycle offsets of a line (class off, index-enumerated)"},
	}
}

// c17Block emits n pointer operations inside FE00-FEFF.
func c17Block(g *progGen, n int) {
	r := g.r
	g.onlyOAM = true
	defer func() { g.onlyOAM = false }()
	for i := 0; i < n; i++ {
		switch r.Intn(8) {
		case 0, 1: // 16-bit INC/DEC with the pair inside OAM
			p := uint8(r.Intn(4))
			g.emit16(0x01|p<<4, g.pick(1))
			for j, k := 0, r.Range(1, 3); j < k; j++ {
				g.emit(engine.Pick(r, []uint8{0x03, 0x0b}) | p<<4)
			}
		case 2: // PUSH / POP with SP inside OAM
			g.emit16(0x31, g.pick(2))
			g.emit(engine.Pick(r, []uint8{0xc5, 0xd5, 0xe5, 0xf5, 0xc1, 0xd1, 0xe1, 0xf1}))
		case 3:
			g.emitUnit(engine.Pick(r, []uint8{0x2a, 0x3a, 0x22, 0x32}), false, false)
		case 4:
			g.emitUnit(engine.Pick(r, []uint8{0x0a, 0x1a, 0x02, 0x12, 0x7e, 0x46, 0x4e}), false, false)
		case 5:
			g.emitUnit(engine.Pick(r, []uint8{0x70, 0x71, 0x77, 0x36, 0x34, 0x35}), false, false)
		case 6:
			g.emitUnit(uint8(r.Intn(32))<<3|6, true, false)
		default:
			g.emitUnit(engine.Pick(r, []uint8{0xea, 0xfa, 0x08}), false, false)
		}
	}
	// leave SP somewhere harmless again
	g.emitStackSetup()
}

func (c17) Generate(r *engine.Rand, index int, tier string) *engine.Scenario {
	sc := &engine.Scenario{}
	g := &progGen{r: r, base: lsCodeWRAM}
	g.emitStackSetup()
	if r.Chance(2, 3) {
		// LCDC rewritten with the LCD left on: objects on or off, their size, window, tile maps
		g.emit(0x3e, 0x80|r.Byte()&0x7f, 0xe0, 0x40)
	}
	if index%24 == 13 {
		// the guest runs code out of OAM with the LCD on: one-cycle instructions on registers all the way
		// through the 160 bytes, entered at any cycle of a line, then a jump back to work RAM. Opcode
		// fetches during the OAM scan may disturb OAM (excused like any access in mode 2); outside the
		// scan OAM stays as it is
		sc.Class = "code-in-oam"
		k := (index/24)%114 + 114*r.Intn(3)
		sc.SetP("nops", int64(k))
		if it := k / 7; it > 0 {
			g.emit16(0x01, uint16(it))
			g.emit(0x0b, 0x78, 0xb1, 0x20, 0xfb)
		}
		for i := 0; i < k%7; i++ {
			g.emit(0x00)
		}
		entry := r.Intn(0x90)
		g.emit(0xc3, uint8(entry), 0xfe)
		back := uint16(lsCodeWRAM) + uint16(len(g.code))
		g.emit(0x00, 0x00)
		g.finish()
		oam := make([]byte, 0xa0)
		for i := range oam {
			oam[i] = engine.Pick(r, []uint8{0x00, 0x00, 0x40, 0x49, 0x52, 0x5b, 0x7f, 0x04, 0x0c, 0x14, 0x1c, 0x3c, 0x05, 0x0d, 0x3d, 0x2f, 0x37, 0x3f, 0x07, 0x17, 0x80, 0x91, 0xa8, 0xb1, 0x47, 0x78})
		}
		end := entry + r.Range(1, 0x9d-entry)
		oam[end], oam[end+1], oam[end+2] = 0xc3, uint8(back), uint8(back>>8)
		lsScenario(sc, r, g)
		sc.SetStr("oam_code", engine.Hex(oam))
		sc.SetP("keep_lcd", 1)
		sc.Cycles = uint64(len(g.code))*4 + uint64(k) + 600
		return sc
	}
	switch index % 3 {
	case 0, 1:
		sc.Class = "off"
		k := (index/3)%114 + 114*r.Intn(3)
		if r.Chance(1, 4) {
			k += 144 * 114 // into VBlank
		} else if r.Chance(1, 4) {
			k += 154 * 114 // into the first lines of the second frame (line 0 reached through the vertical blank)
		}
		sc.SetP("nops", int64(k))
		// the wait is a counted loop so that programs stay small: BC = k/4 iterations of 4 cycles + k%4 NOPs
		// loop: DEC BC (2) ; LD A,B (1) ; OR C (1) ; JR NZ,loop (3/2) = 7 cycles per iteration
		it := k / 7
		if it > 0 {
			g.emit16(0x01, uint16(it))
			g.emit(0x0b, 0x78, 0xb1, 0x20, 0xfb)
		}
		for i := 0; i < k%7; i++ {
			g.emit(0x00)
		}
		g.emit(0x3e, r.Byte()&0x7f, 0xe0, 0x40) // LCD off
		for i, n := 0, r.Intn(3); i < n; i++ {
			// stores to LY (read-only), STAT, LYC and LCDC (bit 7 clear again) with the LCD off
			g.emit(0x3e, r.Byte()&0x7f, 0xe0, engine.Pick(r, []uint8{0x44, 0x44, 0x41, 0x45, 0x40}))
		}
		c17Block(g, r.Range(4, 30))
	case 2:
		if index%6 == 5 {
			// an OAM DMA started at any cycle of a line (mode 2 included), the LCD possibly switched
			// off while it is in flight; pointer operations only after it has completed
			sc.Class = "dma"
			k := (index/6)%114 + 114*r.Intn(3)
			sc.SetP("nops", int64(k))
			if it := k / 7; it > 0 {
				g.emit16(0x01, uint16(it))
				g.emit(0x0b, 0x78, 0xb1, 0x20, 0xfb)
			}
			for i := 0; i < k%7; i++ {
				g.emit(0x00)
			}
			traffic := r.Chance(1, 2)
			tp := uint8(r.Intn(3))
			if traffic {
				// a register pair pointing into OAM, stepped (16-bit INC/DEC) in the first cycles of the
				// transfer, before anything has been copied: whatever that does to OAM rows then, the transfer
				// copies over it, and nothing of it is left to happen once the transfer is over
				g.onlyOAM = true
				g.emit16(0x01|tp<<4, g.pick(1))
				g.onlyOAM = false
			}
			g.emit(0x3e, uint8(r.Range(0xc0, 0xdc)), 0xe0, 0x46) // LD A,page ; LDH (46),A
			if traffic {
				for i, n := 0, r.Range(1, 2); i < n; i++ {
					g.emit(engine.Pick(r, []uint8{0x03, 0x0b}) | tp<<4)
				}
			}
			if r.Chance(2, 3) {
				for i, n := 0, r.Intn(120); i < n; i++ {
					g.emit(0x00)
				}
				g.emit(0x3e, r.Byte()&0x7f, 0xe0, 0x40) // LCD off while the transfer runs
			}
			g.emit16(0x01, uint16(r.Range(26, 60))) // at least 182 cycles
			g.emit(0x0b, 0x78, 0xb1, 0x20, 0xfb)
			if r.Chance(1, 3) {
				// with the LCD still on: only outside mode 2 (wait for VBlank)
				g.emit(0xf0, 0x44, 0xfe, 0x90, 0x20, 0xfa)
			}
			c17Block(g, r.Range(4, 30))
			break
		}
		if r.Bool() {
			sc.Class = "vblank"
			g.emit(0xf0, 0x44, 0xfe, 0x90, 0x20, 0xfa) // loop: LDH A,(44) ; CP 144 ; JR NZ,loop
			c17Block(g, r.Range(4, 30))
		} else {
			sc.Class = "mode3"
			if r.Bool() {
				// LCDC rewritten (LCD left on; objects, their size, the window switched) during the OAM scan
				// of the very line on which the pointer block then runs in mode 3 or 0
				g.emit(0x3e, 0x80|r.Byte()&0x7f|0x02, 0xe0, 0x40) // objects on first
				v := 0x80 | r.Byte()&0x7f
				if r.Chance(2, 3) {
					v &^= 0x02 // objects off
				}
				g.emit(0x06, v) // LD B,v
				g.filler(r.Intn(12))
				g.emit(0xf0, 0x41, 0xe6, 0x03, 0xfe, 0x02, 0x28, 0xf8) // leave mode 2: LDH A,(41) ; AND 3 ; CP 2 ; JR Z,loop
				g.emit(0xf0, 0x41, 0xe6, 0x03, 0xfe, 0x02, 0x20, 0xf8) // the scan begins: ... JR NZ,loop
				g.emit(0x78, 0xe0, 0x40)                               // LD A,B ; LDH (40),A
			}
			g.emit(0xf0, 0x41, 0xe6, 0x03, 0xfe, 0x03, 0x20, 0xf8) // loop: LDH A,(41) ; AND 3 ; CP 3 ; JR NZ,loop
			c17Block(g, r.Range(1, 4))
		}
	}
	g.emit(0x00, 0x00)
	g.finish()
	lsScenario(sc, r, g)
	sc.SetP("keep_lcd", 1)
	sc.Cycles = uint64(len(g.code))*4 + uint64(sc.P("nops", 0)) + 18000
	return sc
}

func (c17) Execute(sc *engine.Scenario) *engine.Result {
	res := &engine.Result{}
	l := newLockstep(sc, res)
	if l == nil {
		return res
	}
	lcdWasOn := true
	offMode := -1
	dmaUntil, dmaSrc := uint64(0), uint16(0)
	l.onInstr = func(l *lockstep, realCycles int, mism []lsMismatch) bool {
		for _, mm := range mism {
			if mm.kind == "undefined" {
				if sc.Class == "code-in-oam" {
					return false // the OAM scan got at the code (excused): nothing more to judge
				}
				res.Harness = mm.detail
				return false
			}
		}
		key := l.opKey()
		if lcdWasOn && !l.ppu.On {
			// this instruction switched the LCD off; the mode it interrupted was recorded before
			res.Probe(fmt.Sprintf("lcd_off_in_mode%d", offMode))
		}
		o := l.m.PeekOAM()
		for _, a := range l.ref.Acc {
			if a.Write && a.Addr == 0xff46 {
				// the guest started a transfer: OAM is the transfer's until it has completed
				dmaUntil = l.m.N + 166
				dmaSrc = uint16(l.ref.A) << 8
				res.Probe(fmt.Sprintf("dma_started_in_mode%d", offMode))
			}
		}
		if dmaUntil != 0 {
			if l.m.N < dmaUntil {
				if lcdWasOn && !l.ppu.On {
					res.Probe("lcd_off_during_dma")
				}
				if l.ppu.On {
					offMode = int(l.ppu.Mode())
				}
				lcdWasOn = l.ppu.On
				return true
			}
			dmaUntil = 0
			for i := 0; i < 0xa0; i++ {
				l.shadow[0xfe00+i] = l.shadow[dmaSrc+uint16(i)] // what the transfer copied (work RAM, untouched meanwhile)
			}
			res.Probe("dma_completed")
		}
		excused := l.ppu.On && l.mode2Seen || (lcdWasOn && l.mode2Seen && !l.ppu.On)
		touches := false
		for _, a := range l.ref.Acc {
			if a.Addr >= 0xfe00 && a.Addr <= 0xfeff {
				touches = true
				if a.Write && a.Addr < 0xfea0 {
					res.Probe("oam_write_by_cpu")
				}
			}
		}
		rg := l.pre
		for _, v := range []uint16{uint16(rg.B)<<8 | uint16(rg.C), uint16(rg.D)<<8 | uint16(rg.E), uint16(rg.H)<<8 | uint16(rg.L), rg.SP} {
			if v >= 0xfe00 && v <= 0xfeff {
				touches = true
			}
		}
		same := true
		bad := 0
		for i := 0; i < 0xa0; i++ {
			if o[i] != l.shadow[0xfe00+i] {
				same = false
				bad = i
				break
			}
		}
		state := "lcd-off"
		if l.ppu.On {
			state = fmt.Sprintf("lcd-on-mode%d", l.ppu.Mode())
		}
		if !same {
			if excused {
				for i := 0; i < 0xa0; i++ {
					l.shadow[0xfe00+i] = o[i]
				}
				res.Probe("oam_bug_in_mode2_excused")
			} else {
				res.Fail("C17/oam-changed/"+state, l.m.N, "%s: OAM[%02x]=%02x but only documented CPU writes would give %02x (LCD on=%v, reference line %d position %d, LCD was switched off in mode %d)", l.describe(), bad, o[bad], l.shadow[0xfe00+bad], l.ppu.On, l.ppu.Line, l.ppu.Pos, offMode)
				return false
			}
		}
		if touches && l.ref.Kind == "instr" {
			switch {
			case !l.ppu.On:
				res.Probe("pointer_op_lcd_off")
			case l.ppu.Mode() == 1:
				res.Probe("pointer_op_vblank")
			case l.ppu.Mode() != 2:
				res.Probe("pointer_op_mode3_0")
			}
			res.Sig(fmt.Sprintf("%s/%s/offmode=%d/%s", sc.Class, state, offMode, key))
		}
		if l.ppu.On {
			offMode = int(l.ppu.Mode())
		}
		lcdWasOn = l.ppu.On
		if key == "18" && l.ref.PC == l.ref.OpPC {
			return false
		}
		return true
	}
	l.run(sc.Cycles)
	return res
}
