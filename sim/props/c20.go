package props

import (
	"fmt"
	"math"

	"verifsim/engine"
	"verifsim/machine"
)

// C20 — the audio sample stream is paced, routed and bounded.
//
// Simulated dimension: the audio consumer. The speakers are a simulated device that owns the
// two sample channels. Class pace: the consumer drains after every machine cycle and stamps
// every sample with the cycle it became available (pacing against the simulated clock).
// Class stall: the consumer is slow (channel capacity 1..64, reads in bursts), so the
// emulator, running its own Run loop in a goroutine, really blocks on the channel send; the
// stream must equal, value for value, the stream of the same scenario drained every cycle.
// Class route: paired runs that differ only in what a channel not routed to one side does.
type c20 struct{}

func init() { engine.Register(c20{}) }

func (c20) PostGenerate(r *engine.Rand, sc *engine.Scenario) {
	chooseEnv(r, sc)
	if r.Chance(1, 3) {
		addOtherUnitEvents(r, sc, exclSound)
	}
}

func (c20) ID() string { return "C20" }

func (c20) Budget(tier string) int {
	if tier == "thorough" {
		return 6000
	}
	return 720
}

func (c20) Describe() engine.Info {
	return engine.Info{
		Rule: "scenario = random register schedule (power off/on, triggers of all four channels, NR50/NR51 routing and volumes, frequencies, envelopes, wave RAM) over 0.1..2.6 emulated seconds. pace: per-cycle drain; every sample stamped with its cycle. stall: capacity 1..64 and burst reads so that the sender blocks; compared with the per-cycle-drained stream. route: one channel is never routed to one side; a second run rewrites that channel's registers differently; that side's stream must not change. " +
			"Oracle: left and right always paired in the same cycle; within an anchored stretch sample k is 95 k clocks after the anchor (+-3 clocks of cycle quantisation); a re-phasing gap of 96..189 clocks is accepted at most once per emulated second; 44,149 or 44,150 pairs in every full emulated second with sound on; none while sound is off; every sample finite, in [0,1), and 0 when no enabled channel is routed to that side. Signature = (class, sound toggled?, channels playing bitmap, capacity class)." +
			" The stream must start within two sample periods and may not dry up while sound is on. Environment dimensions as C12. Half of the route scenarios start with the unrouted channel's note running out and being restarted by NRx4 alone (length register untouched) while the other channels play length-limited notes. NR51/NR50 values include everything-routed-that-may-be and equal levels; the envelope register of a held note is rewritten 40..90 times in a row. The unrouted channel's length counting is switched off and on without trigger with one clock left.",
		Assumptions:    []string{"the statement's two figures (one pair per 95 clocks, 44,149 per second) differ; both are below 4,194,304/95, so a once-per-second re-phasing is accepted and the 95-clock grid is demanded between re-phasings", "with no outputs attached there is nothing to observe beyond the absence of channels"},
		RequiredProbes: []string{"samples_stamped", "full_seconds_counted", "sound_off_periods", "sender_blocked_runs", "routing_pairs", "zero_when_nothing_routed"},
		RealComponents: realComponents, StubComponents: stubComponents,
	}
}

var c20Regs = []uint16{0xff10, 0xff11, 0xff12, 0xff13, 0xff14, 0xff16, 0xff17, 0xff18, 0xff19, 0xff1a, 0xff1b, 0xff1c, 0xff1d, 0xff1e, 0xff20, 0xff21, 0xff22, 0xff23, 0xff24, 0xff25}

func c20Channel(a uint16) int {
	switch {
	case a >= 0xff10 && a <= 0xff14:
		return 0
	case a >= 0xff16 && a <= 0xff19:
		return 1
	case a >= 0xff1a && a <= 0xff1e, a >= 0xff30 && a <= 0xff3f:
		return 2
	case a >= 0xff20 && a <= 0xff23:
		return 3
	}
	return -1
}

func (c20) Generate(r *engine.Rand, index int, tier string) *engine.Scenario {
	sc := &engine.Scenario{Cart: simpleRom(), Audio: true}
	cls := []string{"pace", "pace", "stall", "route"}[index%4]
	sc.Class = cls
	span := uint64(r.Range(100000, 600000))
	long := cls == "pace" && index%8 == 0
	if long {
		span = uint64(r.Range(1100000, 2700000))
	}
	// which channel is kept away from which side (class route)
	xch, side := r.Intn(4), r.Intn(2)
	sc.SetP("xch", int64(xch))
	sc.SetP("side", int64(side))
	routeMask := uint8(0xff)
	if cls == "route" {
		routeMask = ^(uint8(1) << uint(xch+4*(1-side))) // side 0 = left = bits 4-7
	}
	n := r.Range(10, 120)
	at := uint64(2)
	add := func(a uint16, v uint8) {
		sc.Events = append(sc.Events, engine.Event{At: at, K: "bus_w", A: a, V: v})
		at++
	}
	// routing and level values: random, or everything routed that may be routed / equal levels on both sides
	nr51 := func() uint8 {
		if r.Chance(1, 3) {
			return 0xff & routeMask
		}
		return r.Byte() & routeMask
	}
	nr50 := func() uint8 {
		if r.Chance(1, 3) {
			x := r.Byte() & 7
			return x | x<<4 | r.Byte()&0x88
		}
		return r.Byte()
	}
	add(0xff26, 0x80)
	add(0xff24, nr50())
	add(0xff25, nr51())
	if cls == "route" && r.Bool() {
		// the channel kept off one side plays a note that runs out (length counter at zero, length register
		// not rewritten) and is restarted again and again by its NRx4 alone, while the other channels play
		// notes that end by their length counters
		nrx1 := []uint16{0xff11, 0xff16, 0xff1b, 0xff20}
		nrx2 := []uint16{0xff12, 0xff17, 0xff1a, 0xff21}
		nrx4 := []uint16{0xff14, 0xff19, 0xff1e, 0xff23}
		add(nrx2[xch], 0xf8)
		if xch == 2 {
			add(0xff1c, 0x20)
		}
		add(nrx1[xch], 0xff)
		add(nrx4[xch], 0xc7)
		at += uint64(r.Range(4100, 9000))
		for i, k := 0, r.Range(3, 12); i < k; i++ {
			for c := 0; c < 4; c++ {
				if c == xch || !r.Chance(1, 2) {
					continue
				}
				add(nrx2[c], 0xf8)
				if c == 2 {
					add(0xff1c, 0x20)
				}
				add(nrx1[c], 0x3f&^uint8(r.Intn(16)))
				add(nrx4[c], 0xc0|r.Byte()&7)
			}
			at += uint64(r.Range(1, 20000))
			add(nrx4[xch], 0xc0|r.Byte()&7)
			at += uint64(r.Range(1, 70000))
			if r.Bool() {
				// one length clock left, length counting switched off and on again without a trigger (the
				// switch-on may clock the counter at once and end the note): that channel's business only
				add(nrx1[xch], 0xff)
				add(nrx4[xch], 0x00)
				at += uint64(r.Range(1, 9000))
				add(nrx4[xch], 0x40)
				at += uint64(r.Range(1, 9000))
			}
		}
	}
	for i := 0; i < n; i++ {
		at += uint64(r.Intn(int(span) / n * 2))
		switch k := r.Intn(16); {
		case k == 0 && cls != "stall" && !long:
			add(0xff26, 0x00)
			at += uint64(r.Range(1, 3000))
			add(0xff26, 0x80)
			add(0xff25, nr51())
			add(0xff24, nr50())
		case k < 3:
			add(0xff25, nr51())
		case k == 3:
			add(0xff24, nr50())
		case k < 6:
			add(0xff30+uint16(r.Intn(16)), r.Byte())
		default:
			// start a channel: DAC on, volume, frequency, trigger
			c := r.Intn(4)
			switch c {
			case 0:
				add(0xff12, r.Byte()|0x08)
				add(0xff11, r.Byte())
				add(0xff13, r.Byte())
				add(0xff14, 0x80|r.Byte()&0x47)
			case 1:
				add(0xff17, r.Byte()|0x08)
				add(0xff16, r.Byte())
				add(0xff18, r.Byte())
				add(0xff19, 0x80|r.Byte()&0x47)
			case 2:
				add(0xff1a, 0x80)
				add(0xff1c, uint8(r.Range(1, 3))<<5)
				add(0xff1d, r.Byte())
				add(0xff1e, 0x80|r.Byte()&0x47)
			default:
				add(0xff21, r.Byte()|0x08)
				add(0xff22, r.Byte())
				add(0xff23, 0x80|r.Byte()&0x40)
			}
			if c != 2 && r.Chance(1, 10) {
				// the envelope register of the playing channel rewritten dozens of times in a row (period 0,
				// DAC on) with no new trigger: samples stay within [0,1)
				nrx2 := []uint16{0xff12, 0xff17, 0, 0xff21}[c]
				for j, q := 0, r.Range(40, 90); j < q; j++ {
					add(nrx2, 0xf0|uint8(r.Intn(2))<<3)
				}
			}
		}
	}
	sc.Cycles = at + uint64(r.Range(100, 5000))
	if cls == "stall" {
		sc.ChanCap = []int{1, 2, 3, 4, 7, 16, 64}[r.Intn(7)]
		sc.SetP("burst", int64(r.Range(1, sc.ChanCap)))
		// whole frames: the emulator's own Run loop is used
		sc.Cycles = (sc.Cycles/17556 + 1) * 17556
	}
	sc.SetP("alt", int64(r.U64()>>1))
	return sc
}

type c20Sample struct {
	cycle uint64
	l, r  float32
}

// c20Run executes the register schedule with the consumer draining after every cycle.
// altSeed != 0 rewrites the registers of channel xch with other values (class route).
func c20Run(sc *engine.Scenario, res *engine.Result, altSeed uint64, judge bool) []c20Sample {
	opt := machine.Options{Audio: true, ChanCap: 0}
	img, _ := cartBuild(sc.Cart)
	m, pi := machine.New(img, false, opt)
	if pi != nil {
		res.Harness = pi.Value
		return nil
	}
	m.Write(0xff40, 0)
	park(sc, m, res)
	var alt *engine.Rand
	if altSeed != 0 {
		alt = engine.NewRand(altSeed)
	}
	xch := int(sc.P("xch", 0))
	var out []c20Sample
	ei := 0
	var pendL, pendR []float32
	prev51, prev52 := m.Read(0xff25), m.Read(0xff26)
	m.OnCycle = func() {
		cur51, cur52 := m.Read(0xff25), m.Read(0xff26)
		defer func() { prev51, prev52 = m.Read(0xff25), m.Read(0xff26) }()
		for {
			select {
			case v := <-m.Spk.Left():
				pendL = append(pendL, v)
				continue
			default:
			}
			select {
			case v := <-m.Spk.Right():
				pendR = append(pendR, v)
				continue
			default:
			}
			break
		}
		if judge && len(pendL) != len(pendR) {
			res.Fail("C20/unpaired", m.N, "after cycle %d the left side has %d samples and the right side %d: the two sides are not emitted together", m.N, len(pendL), len(pendR))
			pendL, pendR = nil, nil
			return
		}
		for i := range pendL {
			if i < len(pendR) {
				out = append(out, c20Sample{m.N, pendL[i], pendR[i]})
			}
		}
		if judge && len(pendL) > 0 {
			// routing at the time of the sample
			// the sample was taken at some clock of this cycle: a channel counts as possibly audible if
			// it was enabled and routed at the start or at the end of the cycle
			nr51, nr52 := cur51, cur52
			on := nr52 & 0x0f
			for i := range pendL {
				for s, v := range []float32{pendL[i], pendR[i]} {
					name := []string{"left", "right"}[s]
					if math.IsNaN(float64(v)) || math.IsInf(float64(v), 0) || v < 0 || v >= 1 {
						res.Fail("C20/out-of-range/"+name, m.N, "%s sample %v is not a finite value in [0,1)", name, v)
					}
					routed := nr51 >> uint(4*(1-s)) & 0x0f
					routedPrev := prev51 >> uint(4*(1-s)) & 0x0f
					if routed&on == 0 && routedPrev&prev52&0x0f == 0 {
						res.Probe("zero_when_nothing_routed")
						if v != 0 {
							res.Fail("C20/nonzero-without-routed-channel/"+name, m.N, "%s sample is %v although no enabled channel is routed to that side (NR51=%02x NR52=%02x)", name, v, nr51, nr52)
						}
					}
				}
			}
		}
		pendL, pendR = pendL[:0], pendR[:0]
	}
	for m.N < sc.Cycles && res.Violation == nil {
		for ei < len(sc.Events) && sc.Events[ei].At <= m.N {
			ev := sc.Events[ei]
			ei++
			if applyOther(m, &ev, res) {
				continue
			}
			v := ev.V
			if alt != nil && c20Channel(ev.A) == xch {
				v = alt.Byte()
				if ev.A == 0xff14 || ev.A == 0xff19 || ev.A == 0xff1e || ev.A == 0xff23 {
					v |= 0x80
				}
			}
			m.Write(ev.A, v)
		}
		next := sc.Cycles
		if ei < len(sc.Events) && sc.Events[ei].At < next {
			next = sc.Events[ei].At
		}
		if next <= m.N {
			next = m.N + 1
		}
		m.RunCycles(next - m.N)
	}
	res.Cycles += m.N
	m.GB.Cleanup()
	return out
}

func (c20) Execute(sc *engine.Scenario) *engine.Result {
	res := &engine.Result{}
	base := c20Run(sc, res, 0, true)
	if res.Failed() {
		return res
	}
	res.ProbeN("samples_stamped", len(base))
	{
		dg := engine.NewDigest()
		for _, s := range base {
			dg.U64(s.cycle)
			dg.U32(math.Float32bits(s.l))
			dg.U32(math.Float32bits(s.r))
		}
		res.Digest = uint64(dg)
	}
	// power history from the schedule
	type span struct{ from, to uint64 }
	var offs []span
	on := true // the emulator powers the APU on at construction; the schedule starts with NR52=80
	var offAt uint64
	for _, ev := range sc.Events {
		if ev.A == 0xff26 {
			now := ev.V&0x80 != 0
			if on && !now {
				offAt = ev.At
			}
			if !on && now {
				offs = append(offs, span{offAt, ev.At})
				res.Probe("sound_off_periods")
			}
			on = now
		}
	}
	isOff := func(c uint64) bool {
		for _, s := range offs {
			if c > s.from+1 && c <= s.to {
				return true
			}
		}
		return false
	}
	toggled := len(offs) > 0
	// ---- pacing ---------------------------------------------------------------------------
	if len(base) > 0 {
		anchorI, anchorC := 0, base[0].cycle
		lastRephase := uint64(0)
		rephased := false
		for i := 1; i < len(base); i++ {
			c := base[i].cycle
			if isOff(c) {
				res.Fail("C20/sample-while-sound-off", c, "a sample pair was emitted at cycle %d while sound was powered off", c)
				return res
			}
			gapCycles := int64(c - base[i-1].cycle)
			// was sound off between the two samples? then the grid may restart
			offBetween := false
			for _, s := range offs {
				if s.from >= base[i-1].cycle-1 && s.from <= c {
					offBetween = true
				}
			}
			dev := 4*int64(c-anchorC) - 95*int64(i-anchorI)
			if dev >= -3 && dev <= 3 {
				continue
			}
			gapClocksLo, gapClocksHi := 4*gapCycles-3, 4*gapCycles+3
			switch {
			case offBetween:
				anchorI, anchorC = i, c
			case gapClocksHi >= 96 && gapClocksLo <= 189 && (!rephased || c-lastRephase >= 1048000):
				// the once-per-second re-phasing
				rephased, lastRephase = true, c
				anchorI, anchorC = i, c
			default:
				res.Fail("C20/pacing", c, "sample pair %d came %d machine cycles (%d..%d clocks) after the previous one and is %d clocks off the 95-clock grid anchored at cycle %d", i, gapCycles, gapClocksLo, gapClocksHi, dev, anchorC)
				return res
			}
		}
		// pairs per full emulated second with sound on
		if !toggled {
			first := base[0].cycle
			for start := first; start+1048576 <= base[len(base)-1].cycle; start += 1048576 {
				n := 0
				for _, s := range base {
					if s.cycle >= start && s.cycle < start+1048576 {
						n++
					}
				}
				res.Probe("full_seconds_counted")
				if n < 44149 || n > 44150 {
					res.Fail("C20/pairs-per-second", start, "%d stereo samples in the emulated second starting at cycle %d, expected 44,149 or 44,150", n, start)
					return res
				}
			}
		}
	}
	// the stream neither starts late nor dries up: with sound on, the first pair comes within two sample
	// periods of the start and the last one within two sample periods of the end of the run
	{
		end := sc.Cycles
		first, last := end, uint64(0)
		if len(base) > 0 {
			first, last = base[0].cycle, base[len(base)-1].cycle
		}
		switch {
		case !isOff(1) && !isOff(first) && first > 48 && (len(offs) == 0 || offs[0].from > 48):
			res.Fail("C20/pacing/no-samples", first, "sound is on from the start but the first sample pair came at machine cycle %d (of %d): more than two sample periods (190 clocks) without a sample", first, end)
			return res
		case on && end > last+48 && (len(offs) == 0 || offs[len(offs)-1].to+48 < end):
			res.Fail("C20/pacing/stream-stops", last, "sound is on but no sample pair came after machine cycle %d although the run went on to cycle %d", last, end)
			return res
		}
	}
	playing := 0
	switch sc.Class {
	case "stall":
		// ---- back-pressure: same schedule, slow consumer, the emulator's own Run loop in a goroutine
		got, herr := c20Stalled(sc, res)
		if herr != "" {
			res.Harness = herr
			return res
		}
		res.Probe("sender_blocked_runs")
		n := len(got)
		if len(base) < n {
			n = len(base)
		}
		for i := 0; i < n; i++ {
			if got[i].l != base[i].l || got[i].r != base[i].r {
				res.Fail("C20/stall/stream-differs", uint64(i), "with a slow consumer (capacity %d) sample pair %d is (%v,%v), with a prompt consumer (%v,%v)", sc.ChanCap, i, got[i].l, got[i].r, base[i].l, base[i].r)
				return res
			}
		}
		// the stalled run executes whole frames: it may be a few samples longer, never shorter
		if len(got) < len(base) {
			res.Fail("C20/stall/samples-lost", uint64(n), "with a slow consumer (capacity %d) %d sample pairs arrived, with a prompt consumer %d", sc.ChanCap, len(got), len(base))
			return res
		}
	case "route":
		alt := c20Run(sc, res, uint64(sc.P("alt", 1))|1, false)
		if res.Failed() {
			return res
		}
		res.Probe("routing_pairs")
		side := int(sc.P("side", 0))
		if len(alt) != len(base) {
			res.Fail("C20/route/count-differs", 0, "rewriting the registers of channel %d changed the number of samples (%d vs %d)", sc.P("xch", 0)+1, len(alt), len(base))
			return res
		}
		for i := range base {
			a, b := base[i].l, alt[i].l
			if side == 1 {
				a, b = base[i].r, alt[i].r
			}
			if a != b {
				res.Fail(fmt.Sprintf("C20/route/ch%d-leaks-into-%s", sc.P("xch", 0)+1, []string{"left", "right"}[side]), base[i].cycle, "channel %d is never routed to the %s side, yet changing only that channel's registers changed %s sample %d from %v to %v", sc.P("xch", 0)+1, []string{"left", "right"}[side], []string{"left", "right"}[side], i, a, b)
				return res
			}
		}
	}
	for _, s := range base {
		if s.l != 0 || s.r != 0 {
			playing = 1
			break
		}
	}
	capc := "default"
	if sc.ChanCap > 0 && sc.ChanCap <= 4 {
		capc = "tiny"
	} else if sc.ChanCap > 4 {
		capc = "small"
	}
	res.Sig(fmt.Sprintf("%s/toggled=%v/audible=%d/cap=%s/long=%v", sc.Class, toggled, playing, capc, sc.Cycles > 1048576))
	return res
}

// c20Stalled runs the schedule with the emulator's Run loop in its own goroutine and a slow
// consumer that reads in bursts, so the emulator blocks on the channel send.
func c20Stalled(sc *engine.Scenario, res *engine.Result) ([]c20Sample, string) {
	img, _ := cartBuild(sc.Cart)
	m, pi := machine.New(img, false, machine.Options{Audio: true, ChanCap: sc.ChanCap})
	if pi != nil {
		return nil, pi.Value
	}
	m.Write(0xff40, 0)
	park(sc, m, res)
	ei := 0
	m.OnCycle = func() {
		for ei < len(sc.Events) && sc.Events[ei].At <= m.N {
			ev := sc.Events[ei]
			ei++
			if applyOther(m, &ev, res) {
				continue
			}
			m.Write(ev.A, ev.V)
		}
	}
	// events at boundary 0..1 are applied by the hook after the first cycle; the schedule starts at 2
	m.Ctx().CancelAtDoneCall = int(sc.Cycles/17556) + 1
	done := make(chan *machine.PanicInfo, 1)
	go func() {
		done <- machine.Protect(func() { m.RunReal() })
	}()
	var out []c20Sample
	burst := int(sc.P("burst", 1))
	l, r := m.Spk.Left(), m.Spk.Right()
	var ls, rs []float32
	open := true
	for open {
		for i := 0; i < burst && open; i++ {
			v, ok := <-l
			if !ok {
				open = false
				break
			}
			ls = append(ls, v)
		}
		for i := 0; i < burst && open; i++ {
			v, ok := <-r
			if !ok {
				open = false
				break
			}
			rs = append(rs, v)
		}
	}
	// drain what is left on the right side after the close
	for v := range r {
		rs = append(rs, v)
	}
	for v := range l {
		ls = append(ls, v)
	}
	if pi := <-done; pi != nil {
		if pi.Emulator {
			res.Fail("C20/stall/panic/"+pi.Site, m.N, "the emulator panicked while blocked on a slow audio consumer: %s", pi.Value)
			return nil, ""
		}
		return nil, "harness panic: " + pi.Value + "\n" + pi.Stack
	}
	if len(ls) != len(rs) {
		res.Fail("C20/stall/unpaired", m.N, "with a slow consumer the left side delivered %d samples and the right side %d", len(ls), len(rs))
		return nil, ""
	}
	for i := range ls {
		out = append(out, c20Sample{0, ls[i], rs[i]})
	}
	res.Cycles += m.N
	return out, ""
}
