package props

import (
	"encoding/json"
	"fmt"
	"os"
	"os/exec"
	"path/filepath"
	"strings"
	"time"

	"verifsim/engine"
	"verifsim/machine"
)

// C24 — emulation is deterministic.
//
// This is the simulator's own determinism proof pointed at the emulator: the same scenario
// (ROM or generated workload, configuration, key schedule, number of frames) is executed
// twice in this process (with other instances created and run in between), and once more in
// a fresh process under a different GOMAXPROCS; every checkpoint digest (frame pixels, audio
// samples, serial bytes, CPU registers, IF/IE, DIV/TIMA, LY/STAT, NR52) and the final state
// digest (frame buffer, cartridge RAM, work RAM, high RAM, OAM) must be identical.
type c24 struct{}

func init() { engine.Register(c24{}) }

func (c24) ID() string { return "C24" }

func (c24) ReplayAttempts() int { return 6 }

func (c24) Budget(tier string) int {
	if tier == "thorough" {
		return 6000
	}
	return 320
}

func (c24) Describe() engine.Info {
	return engine.Info{
		Rule: "scenario = workload (test ROM from the repository / generated program / random video+audio scene with parked CPU / random bytes as code) x audio and video attached or not x random key schedule x 2..12 frames, preceded by a different 'disturber' workload run in the same process between the two in-process runs. " +
			"Oracle: checkpoint digests every 4096 cycles and final state digest equal between run 1, run 2 (same process, after the disturber) and run 3 (fresh process, other GOMAXPROCS). Signature = (workload kind or ROM, audio, video, keys present)." +
			" One scenario in eight stalls the host in real time inside a few cycles of the second and third run; workload irq: handlers identify themselves on the serial port while several requests are pending at once. Class triple-run-shape: cartridges of the largest shapes (8 MiB MBC5 ...), the guest's view of far-away ROM pages straight after construction is part of the trace; class consumer-pace: the real Run loop in a goroutine against an audio consumer taking bursts of 1 and of up to the queue capacity: both streams equal, left and right paired. Class consumer-pace also switches the sound unit off and on from the schedule and ends half of its runs by the display's close request. One scenario in three constructs every instance from one file name with a constant modification time; one in sixteen lets the fresh process run a guest into an undefined opcode first.",
		Assumptions:    []string{"a panic of the emulator ends a run; it must then occur at the same cycle in every run (whether it may occur at all is C11's business)"},
		RequiredProbes: []string{"child_process_runs", "frames_compared", "samples_compared", "host_stalled_mid_frame", "samples_compared_across_consumer_paces"},
		RealComponents: realComponents, StubComponents: stubComponents,
	}
}

func (c24) Generate(r *engine.Rand, index int, tier string) *engine.Scenario {
	sc := &engine.Scenario{Class: "triple-run"}
	w := randomWorkload(r)
	if index%4 == 0 {
		w.Kind, w.ROM = "rom", freeROMs[(index/4)%len(freeROMs)]
	}
	if index%4 == 1 {
		w.Kind, w.Video = "scene", true
	}
	if index%16 == 10 {
		// the largest cartridges (and other shapes): what the guest reads from far-away pages straight
		// after construction is part of the trace
		sc.Class = "triple-run-shape"
		w.Shape = 1 + r.Intn(len(freeShapes))
		if r.Bool() {
			w.Shape = 1 + r.Intn(2)
		}
		if w.Kind == "rom" {
			w.Kind = "prog"
		}
	}
	if index%16 == 14 {
		// the pace of the audio device: a consumer in a goroutine of its own takes the samples in bursts of
		// one size in one run and of another size in the next; the two streams are the same, sample for sample
		sc.Class = "consumer-pace"
		w.Kind, w.Audio = "scene", true
		w.store(sc, "")
		sc.ChanCap = engine.Pick(r, []int{0, 1, 2, 4, 16, 64})
		capEff := sc.ChanCap // a consumer may take at most as many samples of one side in a row as a queue holds
		if capEff == 0 {
			capEff = 200
		}
		sc.SetP("burst1", 1)
		b2 := capEff
		if r.Bool() {
			b2 = r.Range(1, capEff)
		}
		sc.SetP("burst2", int64(b2))
		sc.Cycles = uint64(r.Range(1, 3)) * 17556
		if r.Bool() {
			sc.SetP("by_display", 1) // the display asks to close after the last frame
		}
		// the guest switches the sound unit off and on and starts notes while the consumer is behind
		for i, n := 0, r.Range(0, 6); i < n; i++ {
			at := uint64(r.Intn(int(sc.Cycles)))
			sc.Events = append(sc.Events, engine.Event{At: at, K: "bus_w", A: 0xff26, V: 0x00})
			sc.Events = append(sc.Events, engine.Event{At: at + uint64(r.Range(1, 3000)), K: "bus_w", A: 0xff26, V: 0x80})
			sc.Events = append(sc.Events, engine.Event{At: at + 3001, K: "bus_w", A: 0xff25, V: 0xff})
			sc.Events = append(sc.Events, engine.Event{At: at + 3002, K: "bus_w", A: 0xff24, V: 0x77})
			sc.Events = append(sc.Events, engine.Event{At: at + 3003, K: "bus_w", A: 0xff17, V: 0xf0})
			sc.Events = append(sc.Events, engine.Event{At: at + 3004, K: "bus_w", A: 0xff19, V: 0x87})
		}
		sortEvents(sc.Events)
		return sc
	}
	if r.Chance(1, 3) {
		sc.SetP("samepath", 1) // all instances are constructed from one file name (contents and all differ)
	}
	if index%16 == 6 {
		// the fresh process first runs a guest into an undefined opcode: the emulator ends the process
		// there by design (then there is nothing to compare); if it does not, what follows is as ever
		sc.SetP("undef_first", 1)
	}
	w.store(sc, "")
	randomWorkload(r).store(sc, "d.")
	frames := r.Range(2, 12)
	sc.Cycles = uint64(frames) * 17556
	for i, n := 0, r.Intn(6); i < n; i++ {
		sc.Events = append(sc.Events, engine.Event{At: uint64(r.Intn(int(sc.Cycles))), K: "key", A: uint16(r.Intn(8)), V: uint8(r.Intn(2))})
	}
	sortEvents(sc.Events)
	sc.SetP("gomaxprocs", int64([]int{1, 2, 4, 16}[r.Intn(4)]))
	if index%8 == 5 {
		// a slow host: the second and third run are stalled (real time passes, emulated time does not)
		// inside a few machine cycles; nothing the emulator produces may depend on how long the host took
		for i, n := 0, r.Range(1, 3); i < n; i++ {
			sc.Events = append(sc.Events, engine.Event{At: uint64(r.Intn(int(sc.Cycles))), K: "stall", N: int64(r.Range(22, 45))})
		}
		// the picture moves from frame to frame (scroll registers rewritten once or twice per frame)
		for f := uint64(0); f < sc.Cycles/17556; f++ {
			for i, n := 0, r.Range(1, 2); i < n; i++ {
				sc.Events = append(sc.Events, engine.Event{At: f*17556 + uint64(r.Intn(17556)), K: "bus_w", A: engine.Pick(r, []uint16{0xff43, 0xff42}), V: r.Byte()})
			}
		}
		sortEvents(sc.Events)
	}
	return sc
}

// traceOf runs the scenario's workload once and returns its checkpoint digests.
func traceOf(sc *engine.Scenario, pfx string, res *engine.Result) ([]uint64, *tracer) {
	return traceOfStalled(sc, pfx, res, false)
}

func traceOfStalled(sc *engine.Scenario, pfx string, res *engine.Result, stalls bool) ([]uint64, *tracer) {
	w := loadWorkload(sc, pfx)
	m := newFree(w, 0, res)
	if m == nil {
		return nil, nil
	}
	t := newTracer(m, 4096)
	ei := 0
	m.OnCycle = func() {
		t.cycle()
		if pfx == "" {
			for ei < len(sc.Events) && sc.Events[ei].At <= m.N && sc.Events[ei].K == "stall" {
				if stalls {
					time.Sleep(time.Duration(sc.Events[ei].N) * time.Millisecond)
					res.Fault("host_stall")
					res.Probe("host_stalled_mid_frame")
				}
				ei++
			}
			applyKeyEvents(m, sc.Events, &ei, nil)
		}
	}
	frames := int(sc.Cycles / 17556)
	pi := machine.Protect(func() { m.RunFrames(frames) })
	if pi != nil {
		if !pi.Emulator {
			res.Harness = "harness panic in traceOf: " + pi.Value + "\n" + pi.Stack
			return nil, nil
		}
		t.dg.Str("panic:" + pi.Site)
		t.dg.U64(m.N)
	}
	t.finish()
	m.GB.Cleanup() // every run ends the way Run ends it (with or without outputs attached)
	return t.points, t
}

// TraceJSON is used by the child process (simcheck -trace file).
func TraceJSON(path string) int {
	sc, err := engine.LoadScenario(path)
	if err != nil {
		fmt.Println("HARNESS-FAULT", err)
		return 2
	}
	res := &engine.Result{}
	if sc.P("undef_first", 0) != 0 {
		// a guest that runs into an undefined opcode, unguarded
		img, _ := cartBuild(engine.CartSpec{Kind: "rom", Program: "00d300", FillSeed: 1})
		if m, pi := machine.New(img, false, machine.Options{}); pi == nil {
			machine.Protect(func() { m.RunCycles(12) })
			m.GB.Cleanup()
		}
	}
	pts, _ := traceOfStalled(sc, "", res, true)
	if res.Harness != "" {
		fmt.Println("HARNESS-FAULT", res.Harness)
		return 2
	}
	b, _ := json.Marshal(pts)
	fmt.Println("TRACE " + string(b))
	return 0
}

func diffPoint(a, b []uint64) int {
	n := len(a)
	if len(b) < n {
		n = len(b)
	}
	for i := 0; i < n; i++ {
		if a[i] != b[i] {
			return i
		}
	}
	if len(a) != len(b) {
		return n
	}
	return -1
}

func (c24) Execute(sc *engine.Scenario) *engine.Result {
	res := &engine.Result{}
	w := loadWorkload(sc, "")
	if sc.Class == "consumer-pace" {
		frames := int(sc.Cycles / 17556)
		var prevL, prevR []float32
		for i, b := range []int{int(sc.P("burst1", 1)), int(sc.P("burst2", 7))} {
			ls, rs, ok := runWithConsumer(w, frames, sc.ChanCap, b, sc.Events, sc.P("by_display", 0) != 0, res)
			if !ok {
				return res
			}
			res.Fault("consumer_pace_changed")
			if len(ls) != len(rs) {
				res.Fail("C24/consumer-pace/unpaired", uint64(len(rs)), "consumer taking %d samples at a time: %d left samples and %d right samples were delivered for the same frames", b, len(ls), len(rs))
				return res
			}
			if i == 1 {
				if len(ls) != len(prevL) {
					res.Fail("C24/consumer-pace/count", uint64(len(ls)), "the number of samples depends on the consumer's pace: %d against %d", len(prevL), len(ls))
					return res
				}
				for j := range ls {
					if ls[j] != prevL[j] || rs[j] != prevR[j] {
						res.Fail("C24/consumer-pace/sample", uint64(j), "sample %d differs between a consumer taking %d and one taking %d samples at a time: (%v,%v) against (%v,%v)", j, sc.P("burst1", 1), b, prevL[j], prevR[j], ls[j], rs[j])
						return res
					}
				}
			}
			prevL, prevR = ls, rs
		}
		res.ProbeN("samples_compared_across_consumer_paces", len(prevL))
		res.Sig(fmt.Sprintf("consumer-pace/cap=%d", sc.ChanCap))
		res.Cycles = sc.Cycles * 2
		return res
	}
	p1, t1 := traceOf(sc, "", res)
	if res.Harness != "" {
		return res
	}
	// another instance is created and run in between (history of the process)
	traceOf(sc, "d.", res)
	if res.Harness != "" {
		return res
	}
	p2, _ := traceOfStalled(sc, "", res, true)
	if res.Harness != "" {
		return res
	}
	name := w.Kind
	if w.Kind == "rom" {
		name = shortROM(w.ROM)
	}
	if i := diffPoint(p1, p2); i >= 0 {
		res.Fail("C24/differs-in-process/"+w.Kind, uint64(i)*4096, "workload %s: checkpoint %d (cycle %d) differs between the first and the second run in the same process", name, i, i*4096)
		return res
	}
	// fresh process
	self, err := os.Executable()
	if err != nil {
		res.Harness = err.Error()
		return res
	}
	tmp := filepath.Join(machine.ScratchDir(), fmt.Sprintf("c24-%d.json", os.Getpid()))
	if err := os.WriteFile(tmp, sc.JSON(), 0o600); err != nil {
		res.Harness = err.Error()
		return res
	}
	defer os.Remove(tmp)
	cmd := exec.Command(self, "-trace", tmp)
	cmd.Env = append(os.Environ(), fmt.Sprintf("GOMAXPROCS=%d", sc.P("gomaxprocs", 1)))
	out, err := cmd.CombinedOutput()
	var p3 []uint64
	ok := false
	for _, ln := range strings.Split(string(out), "\n") {
		if strings.HasPrefix(ln, "TRACE ") {
			if json.Unmarshal([]byte(ln[6:]), &p3) == nil {
				ok = true
			}
		}
	}
	if sc.P("undef_first", 0) != 0 && err != nil && !ok && !strings.Contains(string(out), "HARNESS-FAULT") && !strings.Contains(string(out), "goroutine ") {
		// ended by the emulator at the undefined opcode
		res.Probe("child_process_runs")
		res.Probe("child_ended_at_undefined_opcode")
		res.Sig("undefined-opcode-ends-the-process")
		res.Cycles = sc.Cycles * 2
		return res
	}
	if err != nil || !ok {
		res.Harness = fmt.Sprintf("child process failed: %v: %s", err, string(out))
		return res
	}
	res.Probe("child_process_runs")
	if i := diffPoint(p1, p3); i >= 0 {
		res.Fail("C24/differs-across-processes/"+w.Kind, uint64(i)*4096, "workload %s: checkpoint %d (cycle %d) differs between this process and a fresh process (GOMAXPROCS=%d)", name, i, i*4096, sc.P("gomaxprocs", 1))
		return res
	}
	res.ProbeN("frames_compared", int(sc.Cycles/17556))
	res.ProbeN("samples_compared", t1.samples)
	res.Sig(fmt.Sprintf("%s/audio=%v/video=%v/keys=%v", name, w.Audio, w.Video, len(sc.Events) > 0))
	res.Cycles = sc.Cycles * 3
	if len(p1) > 0 {
		res.Digest = p1[len(p1)-1]
	}
	return res
}
