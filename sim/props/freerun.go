package props

import (
	"fmt"
	"image"
	"math"
	"strings"
	"sync/atomic"

	"verifsim/engine"
	"verifsim/machine"
)

// Free-running workloads (no lock-step reference): a test ROM, a generated program, a random
// video/audio scene with the CPU parked, or random bytes as code. Used by the properties
// about the whole machine: determinism (C24), instance independence (C25), frame loop and
// stopping (C26), no crash (C11), serial (C23).

// workload describes what one emulator instance runs. It is stored in the scenario as
// strings/params with a per-instance prefix ("" or "i0.", "i1.", ...).
type workload struct {
	Kind     string // rom, prog, scene, rand
	ROM      string // kind rom: path relative to testdata
	Seed     uint64 // generator seed for prog/scene/rand
	Audio    bool
	Video    bool
	Debug    bool   // Config.DebugLCD (sprites and window drawn in colour)
	SamePath bool   // every instance's ROM file carries the same name
	Prop     string // the property on whose behalf the instance runs (names the class of a construction-time finding)
	Shape    int    // 0: cartridge kind and size follow from the seed; n>0: freeShapes[n-1] (several instances of one shape)
}

// freeShapes are cartridge shapes given to all instances of a scenario at once: the largest image
// each controller family takes, and the smallest.
var freeShapes = []struct {
	kind string
	rom  uint8
	ram  uint8
	typ  uint8 // 0: the family's usual type byte
}{{"mbc5", 8, 3, 0}, {"mbc5", 8, 0, 0}, {"mbc1", 6, 3, 0}, {"mbc3", 6, 3, 0}, {"mbc5", 7, 4, 0}, {"rom", 0, 0, 0}, {"mbc2", 3, 0, 0}, {"mbc3", 8, 5, 0},
	{"mbc3", 1, 3, 0x10}, {"mbc3", 2, 0, 0x0f}, // with the clock
	{"mbc3", 1, 3, 0x13}, {"mbc3", 1, 0, 0x11}} // without it (the clock registers can be selected all the same)

// freeShapeClock is the first shape (1-based) whose cartridge carries the MBC3 clock.
const freeShapeClock = 9

func (w workload) store(sc *engine.Scenario, pfx string) {
	sc.SetStr(pfx+"wl", w.Kind)
	if w.ROM != "" {
		sc.SetStr(pfx+"rom", w.ROM)
	}
	sc.SetP(pfx+"wseed", int64(w.Seed>>1))
	b := func(v bool) int64 {
		if v {
			return 1
		}
		return 0
	}
	sc.SetP(pfx+"audio", b(w.Audio))
	sc.SetP(pfx+"video", b(w.Video))
	if w.Debug {
		sc.SetP(pfx+"debuglcd", 1)
	}
	if w.Shape != 0 {
		sc.SetP(pfx+"shape", int64(w.Shape))
	}
}

func loadWorkload(sc *engine.Scenario, pfx string) workload {
	return workload{Kind: sc.Str(pfx + "wl"), ROM: sc.Str(pfx + "rom"), Seed: uint64(sc.P(pfx+"wseed", 1)),
		Audio: sc.P(pfx+"audio", 0) != 0, Video: sc.P(pfx+"video", 0) != 0, Debug: sc.P(pfx+"debuglcd", 0) != 0, Shape: int(sc.P(pfx+"shape", 0)), SamePath: sc.P("samepath", 0) != 0}
}

// ROMs that run under the simulator without relying on anything outside the emulator.
var freeROMs = []string{
	"blargg/cpu_instrs/cpu_instrs.gb", "blargg/instr_timing/instr_timing.gb", "blargg/mem_timing/mem_timing.gb",
	"blargg/dmg_sound/dmg_sound.gb", "blargg/halt_bug.gb", "blargg/oam_bug/oam_bug.gb",
	"mts-20221022-1430-8d742b9/acceptance/timer/rapid_toggle.gb", "mts-20221022-1430-8d742b9/acceptance/intr_timing.gb",
	"mts-20221022-1430-8d742b9/acceptance/oam_dma/basic.gb", "mts-20221022-1430-8d742b9/emulator-only/mbc1/ram_64kb.gb",
	"mts-20221022-1430-8d742b9/emulator-only/mbc1/rom_1Mb.gb", "mts-20221022-1430-8d742b9/emulator-only/mbc5/rom_1Mb.gb",
	"mts-20221022-1430-8d742b9/acceptance/bits/unused_hwio-GS.gb", "mts-20221022-1430-8d742b9/acceptance/ppu/stat_irq_blocking.gb",
}

func randomWorkload(r *engine.Rand) workload {
	w := workload{Seed: r.U64(), Audio: r.Chance(1, 2), Video: r.Chance(2, 3)}
	switch r.Intn(9) {
	case 8:
		w.Kind = "scene-lcdoff" // a scene whose LCD is switched off for good: the picture is whatever was there
	case 7:
		w.Kind = "irq"
	case 0, 1:
		w.Kind = "rom"
		w.ROM = engine.Pick(r, freeROMs)
	case 2, 3:
		w.Kind = "scene"
	case 4, 5:
		w.Kind = "prog"
	default:
		w.Kind = "rand"
	}
	return w
}

// ioPokes are (address, mask) pairs for random register states.
var scenePokeRegs = []uint16{0xff42, 0xff43, 0xff45, 0xff47, 0xff48, 0xff49, 0xff4a, 0xff4b, 0xff41,
	0xff10, 0xff11, 0xff12, 0xff13, 0xff16, 0xff17, 0xff18, 0xff1a, 0xff1b, 0xff1c, 0xff1d, 0xff20, 0xff21, 0xff22, 0xff24, 0xff25,
	0xff06, 0xff05}

// freeCount counts the instances constructed by newFree in this process (diagnostics only).
var freeCount atomic.Int64

// newFree constructs the instance for a workload and prepares its initial state.
func newFree(w workload, chanCap int, res *engine.Result) *machine.Machine {
	var img []byte
	var err error
	switch w.Kind {
	case "rom":
		img, err = cartBuild(engine.CartSpec{Kind: "file", File: w.ROM})
	default:
		kinds := []string{"rom", "mbc1", "mbc3rtc", "mbc5", "mbc2", "mbc3"}
		k := kinds[int(w.Seed>>3)%len(kinds)]
		spec := engine.CartSpec{Kind: k, RomCode: 1, RamCode: []uint8{0, 2, 3}[int(w.Seed>>9)%3], FillSeed: w.Seed, Program: "18fe"}
		if k == "rom" {
			spec.RomCode, spec.RamCode = 0, 0
		} else {
			spec.Type = cartTypeFor(k)
		}
		if k == "mbc3rtc" {
			spec.Kind = "mbc3"
		}
		if w.Shape > 0 && w.Shape <= len(freeShapes) {
			s := freeShapes[w.Shape-1]
			spec.Kind, spec.RomCode, spec.RamCode = s.kind, s.rom, s.ram
			spec.Type = 0
			if s.kind != "rom" {
				spec.Type = cartTypeFor(s.kind)
			}
			if s.typ != 0 {
				spec.Type = s.typ
			}
		}
		if w.Kind == "irq" {
			// every handler sends the low byte of its own vector to the serial port: the order in which
			// simultaneous requests are served becomes part of the trace
			spec.Handler, spec.HandlerTag = "f53ea5e001f1d9", true
		}
		img, err = cartBuild(spec)
	}
	if err != nil {
		res.Harness = "cart: " + err.Error()
		return nil
	}
	m, pi := machine.New(img, false, machine.Options{Audio: w.Audio, Video: w.Video, Serial: true, ChanCap: chanCap, DebugLCD: w.Debug, SamePath: w.SamePath})
	if pi != nil {
		res.Harness = fmt.Sprintf("construction panicked for a well-formed cartridge: %s (%s)", pi.Value, pi.Site)
		return nil
	}
	m.GuardUndefined = true
	freeCount.Add(1)
	if w.Kind != "rom" && img[0x147] != 0 {
		// first touch: straight after construction the guest's view of far-away ROM pages (selected and
		// read over the bus) is part of the instance's trace; page 1 is selected again afterwards
		dg := engine.NewDigest()
		pages := 2 << img[0x148]
		for _, p := range []int{pages - 1, pages / 2, pages/2 + 1, 2, 3, pages - 2, 255, 256, 31, 32} {
			if p < 2 || p >= pages {
				continue
			}
			if img[0x147] >= 0x19 && img[0x147] <= 0x1e {
				m.Write(0x3000, uint8(p>>8))
			}
			m.Write(0x2100, uint8(p))
			for _, a := range []uint16{0x4000, 0x5555, 0x7fff} {
				v := m.Read(a)
				dg.Byte(v)
				t := img[0x147]
				reach := t >= 0x19 && t <= 0x1e || (t >= 0x0f && t <= 0x13 && p < 128) || (t >= 0x01 && t <= 0x03 && p < 32) || ((t == 0x05 || t == 0x06) && p < 16)
				if want := img[p*0x4000+int(a-0x4000)]; reach && v != want && w.Prop != "" && res.Violation == nil {
					res.Fail(w.Prop+"/rom-differs-from-image", 0, "straight after construction page %d offset %04x of the cartridge reads %02x, the image the instance was given holds %02x (%d instances were constructed in this process before)", p, a-0x4000, v, want, freeCount.Load()-1)
				}
			}
		}
		if img[0x147] >= 0x19 && img[0x147] <= 0x1e {
			m.Write(0x3000, 0)
		}
		m.Write(0x2100, 1)
		m.Aux = uint64(dg)
	}
	r := engine.NewRand(w.Seed)
	lcdOffScene := false
	if w.Kind == "scene-lcdoff" {
		w.Kind, lcdOffScene = "scene", true
	}
	defer func() {
		if lcdOffScene && m != nil {
			m.Write(0xff40, 0x00)
		}
	}()
	switch w.Kind {
	case "scene":
		// LCD off while video memory is filled, then a random but stable scene
		m.Write(0xff40, 0x00)
		for a := 0x8000; a < 0xa000; a++ {
			m.Write(uint16(a), r.Byte())
		}
		var o [0xa0]byte
		for i := range o {
			o[i] = r.Byte()
		}
		m.OAM.VerifPoke(o)
		for _, a := range scenePokeRegs {
			m.Write(a, r.Byte())
		}
		if r.Bool() {
			for a := 0xff30; a < 0xff40; a++ {
				if r.Chance(1, 2) {
					m.Write(uint16(a), r.Byte())
				}
			}
		}
		m.Write(0xff14, r.Byte())
		m.Write(0xff19, r.Byte())
		m.Write(0xff1e, r.Byte())
		m.Write(0xff23, r.Byte())
		m.Write(0xff07, r.Byte()&7)
		m.Write(0xff40, 0x80|r.Byte())
		m.Write(0xffff, 0)
		m.Park()
	case "prog":
		g := &progGen{r: r, base: lsCodeWRAM, ramOnly: true}
		g.emitStackSetup()
		if img[0x147] != 0 {
			// cartridge with a controller: enable its RAM and use it as one more data window
			g.emit(0x3e, 0x0a, 0xea, 0x00, 0x00)
			g.cartRAM = true
			// like a save-file counter: cells the program reads before it has written them (what they
			// hold at power-on decides what it does)
			for j, k := 0, r.Range(1, 4); j < k; j++ {
				g.emit16(0x21, 0xa000+uint16(r.Intn(0x200)))
				g.emit(engine.Pick(r, []uint8{0x34, 0x34, 0x35, 0x86, 0xae}))
				g.emit16(0x21, lsStackLo-0x100+uint16(r.Intn(0x80)))
				g.emit(0x77)
			}
		}
		if t := img[0x147]; t >= 0x0f && t <= 0x13 {
			// an MBC3 cartridge: the clock registers are used too (select, write, latch, read back into
			// work RAM), then RAM bank 0 is selected again
			for j, k := 0, r.Range(1, 3); j < k; j++ {
				g.emit(0x3e, uint8(0x08+r.Intn(5)), 0xea, 0x00, 0x40) // select a clock register
				if r.Chance(1, 4) {
					g.emit(0x3e, r.Byte(), 0xea, 0x00, 0xa0) // write it
				} else if r.Chance(2, 3) {
					// write a value that is another one every time round (a counter in work RAM)
					g.emit16(0x21, lsStackLo-0x90)
					g.emit(0x34, 0x7e, 0xea, 0x00, 0xa0) // INC (HL) ; LD A,(HL) ; LD (A000),A
				}
				g.emit(0xaf, 0xea, 0x00, 0x60, 0x3c, 0xea, 0x00, 0x60) // latch: 0 then 1
				g.emit(0xfa, 0x00, 0xa0)                               // LD A,(A000)
				g.emit16(0xea, lsStackLo-0x80+uint16(r.Intn(0x40)))    // keep what was read
			}
			g.emit(0xaf, 0xea, 0x00, 0x40)
		}
		for i, n := 0, r.Range(8, 60); i < n; i++ {
			switch r.Intn(8) {
			case 0:
				// poke an I/O register
				if r.Chance(1, 4) {
					g.emit(0x3e, r.Byte(), 0xe0, uint8(0x30+r.Intn(16)))
				} else if r.Chance(1, 3) {
					g.emit(0x3e, r.Byte(), 0xe0, 0x01) // a byte to the serial port
				} else {
					g.emit(0x3e, r.Byte(), 0xe0, uint8(engine.Pick(r, scenePokeRegs)))
				}
			case 1:
				g.emitUnit(r.Byte(), true, false)
			default:
				g.emitUnit(engine.Pick(r, lockstepOps), false, false)
			}
		}
		g.emit16(0xc3, lsCodeWRAM+3) // loop for ever (after the stack setup)
		for i, b := range g.code {
			m.Write(lsCodeWRAM+uint16(i), b)
		}
		rg := m.CPU.VerifGetRegs()
		rg.PC = lsCodeWRAM
		m.CPU.VerifSetRegs(rg)
		m.Write(0xffff, r.Byte()&0x1f)
	case "irq":
		// several interrupts requested at once, again and again, with the master enable set
		code := []byte{0x31, 0xf0, 0xdf, 0x3e, 0x1f, 0xe0, 0xff, 0x3e, r.Byte() & 7, 0xe0, 0x07, 0xfb}
		for i, n := 0, r.Range(4, 24); i < n; i++ {
			mask := r.Byte() & 0x1f
			if mask&(mask-1) == 0 {
				mask |= engine.Pick(r, []uint8{0x03, 0x05, 0x14, 0x18, 0x1f})
			}
			code = append(code, 0x3e, mask, 0xe0, 0x0f)
			for j, k := 0, r.Intn(12); j < k; j++ {
				code = append(code, 0x00)
			}
			if r.Chance(1, 4) {
				code = append(code, engine.Pick(r, []uint8{0xf3, 0xfb, 0xfb}))
			}
			if r.Chance(1, 5) {
				code = append(code, 0xfb, 0x00, 0x76, 0x00) // EI ; NOP ; HALT: woken by the timer or the LCD
			}
		}
		code = append(code, 0xfb, 0xc3, 0x0c, 0xc0) // EI ; JP back to the first request
		for i, b := range code {
			m.Write(lsCodeWRAM+uint16(i), b)
		}
		rg := m.CPU.VerifGetRegs()
		rg.PC = lsCodeWRAM
		m.CPU.VerifSetRegs(rg)
	case "rand":
		code := r.Bytes(0x1000)
		for i, b := range code {
			m.Write(0xc000+uint16(i), b)
		}
		rg := m.CPU.VerifGetRegs()
		rg.PC = 0xc000
		rg.SP = 0xdff0
		m.CPU.VerifSetRegs(rg)
	}
	return m
}

func cartTypeFor(k string) uint8 {
	switch k {
	case "mbc1":
		return 0x03
	case "mbc2":
		return 0x06
	case "mbc3":
		return 0x13
	case "mbc3rtc":
		return 0x10
	case "mbc5":
		return 0x1b
	}
	return 0
}

// tracer accumulates the observable trace of one instance.
type tracer struct {
	m       *machine.Machine
	dg      engine.Digest
	points  []uint64 // digest after each checkpoint
	every   uint64
	samples int
	serialN int
}

func newTracer(m *machine.Machine, every uint64) *tracer {
	t := &tracer{m: m, dg: engine.NewDigest(), every: every}
	// everything the CPU reads from and writes to the bus is part of the trace (hook H4): a value that
	// differs for a moment differs in the trace, whatever overwrites it later
	m.TapBus()
	m.OnBusRead = func(a uint16, v uint8) {
		t.dg.U16(a)
		t.dg.Byte(v)
	}
	m.OnBusWrite = func(a uint16, v uint8) {
		t.dg.U16(^a)
		t.dg.Byte(v)
	}
	m.OnFrame = func(f *image.RGBA) bool {
		t.dg.Bytes(f.Pix)
		return false
	}
	return t
}

// drain takes whatever the audio party has produced (the simulated consumer never stalls here).
func (t *tracer) drain() {
	if t.m.Spk == nil {
		return
	}
	l, r := t.m.Spk.Left(), t.m.Spk.Right()
	for {
		select {
		case v, ok := <-l:
			if !ok {
				return // closed by Cleanup
			}
			t.dg.U32(math.Float32bits(v))
			t.samples++
			continue
		default:
		}
		select {
		case v, ok := <-r:
			if !ok {
				return
			}
			t.dg.U32(math.Float32bits(v))
			t.samples++
			continue
		default:
		}
		return
	}
}

// cycle is called at every boundary of the instance.
func (t *tracer) cycle() {
	t.drain()
	if t.m.N%t.every == 0 {
		t.checkpoint()
	}
}

func (t *tracer) checkpoint() {
	m := t.m
	r := m.CPU.VerifGetRegs()
	t.dg.Bytes([]byte{r.A, r.F, r.B, r.C, r.D, r.E, r.H, r.L})
	t.dg.U64(m.Aux)
	t.dg.U16(r.SP)
	t.dg.U16(r.PC)
	t.dg.Byte(m.IRQ.ReadIF())
	t.dg.Byte(m.IRQ.ReadIE())
	t.dg.Byte(m.Tim.ReadDIV())
	t.dg.Byte(m.Tim.ReadTIMA())
	t.dg.Byte(m.PPU.ReadLY())
	t.dg.Byte(m.PPU.ReadSTAT())
	t.dg.Byte(m.APU.ReadNR52())
	// the cartridge as the guest would read it just now (both ROM windows; reads change nothing)
	for i := uint64(0); i < 4; i++ {
		t.dg.Byte(m.Read(uint16((m.N/t.every*131 + i*0x2003) & 0x7fff)))
	}
	for len(m.SerialOut) > t.serialN {
		t.dg.Byte(m.SerialOut[t.serialN])
		t.serialN++
	}
	t.points = append(t.points, uint64(t.dg))
}

// finish adds the end-of-run state: frame buffer, cartridge RAM, work RAM digest.
func (t *tracer) finish() uint64 {
	t.drain()
	t.checkpoint()
	t.dg.Bytes(t.m.PPU.Frame().Pix)
	t.dg.Bytes(t.m.Map.DumpRAM())
	for a := 0xc000; a < 0xe000; a += 1 {
		t.dg.Byte(t.m.Read(uint16(a)))
	}
	for a := 0xff80; a < 0xffff; a++ {
		t.dg.Byte(t.m.Read(uint16(a)))
	}
	o := t.m.PeekOAM()
	t.dg.Bytes(o[:])
	for a := 0; a < 0x8000; a += 61 {
		t.dg.Byte(t.m.Read(uint16(a)))
	}
	// every I/O register as a guest would read it (reads have no side effects)
	for a := 0xff00; a < 0xff80; a++ {
		t.dg.Byte(t.m.Read(uint16(a)))
	}
	t.points = append(t.points, uint64(t.dg))
	return uint64(t.dg)
}

// runWithConsumer runs the workload for the given number of frames with the real Run loop in a
// goroutine of its own and the audio device played by this goroutine: it takes `burst` left samples,
// then `burst` right samples, and so on (the emulator blocks on full queues meanwhile). Returns both
// streams.
func runWithConsumer(w workload, frames, chanCap, burst int, evs []engine.Event, byDisplay bool, res *engine.Result) (ls, rs []float32, ok bool) {
	w.Audio = true
	if byDisplay {
		w.Video = true
	}
	m := newFree(w, chanCap, res)
	if m == nil {
		return nil, nil, false
	}
	m.Ctx().CancelAtDoneCall = frames + 1
	if byDisplay {
		// the run is ended by the display asking to close after the last frame, not by the context
		m.Ctx().CancelAtDoneCall = frames + 3
		shown := 0
		m.OnFrame = func(*image.RGBA) bool {
			shown++
			return shown >= frames
		}
	}
	ei := 0
	m.OnCycle = func() {
		// the scheduler as the guest: register writes of the schedule (sound switched off and on, notes started)
		for ei < len(evs) && evs[ei].At <= m.N {
			if evs[ei].K == "bus_w" {
				m.Write(evs[ei].A, evs[ei].V)
			}
			ei++
		}
	}
	done := make(chan *machine.PanicInfo, 1)
	go func() {
		done <- machine.Protect(func() { m.RunReal() })
	}()
	l, r := m.Spk.Left(), m.Spk.Right()
	open := true
	for open {
		for i := 0; i < burst && open; i++ {
			v, k := <-l
			if !k {
				open = false
				break
			}
			ls = append(ls, v)
		}
		for i := 0; i < burst && open; i++ {
			v, k := <-r
			if !k {
				open = false
				break
			}
			rs = append(rs, v)
		}
	}
	for v := range r {
		rs = append(rs, v)
	}
	for v := range l {
		ls = append(ls, v)
	}
	if pi := <-done; pi != nil && !pi.Emulator {
		res.Harness = "harness panic: " + pi.Value + "\n" + pi.Stack
		return nil, nil, false
	}
	return ls, rs, true
}

// applyKeyEvents delivers the key events due at the instance's current boundary.
func applyKeyEvents(m *machine.Machine, evs []engine.Event, ei *int, res *engine.Result) {
	for *ei < len(evs) && evs[*ei].At <= m.N {
		ev := evs[*ei]
		*ei++
		if ev.K == "key" {
			m.Key(controllerButton(int(ev.A)), ev.V != 0)
			if res != nil {
				res.Fault("key")
			}
		}
		if ev.K == "bus_w" {
			m.Write(ev.A, ev.V) // the scheduler as the guest: scroll registers rewritten so that the picture moves
		}
	}
}

func shortROM(rel string) string {
	if i := strings.LastIndex(rel, "/"); i >= 0 {
		return rel[i+1:]
	}
	return rel
}
