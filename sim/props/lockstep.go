package props

import (
	"fmt"

	"github.com/scottyw/tetromino/gameboy/cpu"

	"verifsim/dmgref"
	"verifsim/engine"
	"verifsim/machine"
)

// Lock-step execution of the real CPU (inside the real frame loop) against the reference
// SM83. Both advance one machine cycle at a time; events (interrupt lines, memory stamps)
// are applied to both at the same boundary. At every instruction boundary of the real CPU
// the two are compared and the reference is re-synchronised to the real registers, so each
// instruction is judged from the state the real machine was actually in (history included).

const (
	lsCodeWRAM       = 0xc000 // code window in work RAM: c000-c7ff
	lsCodeROM        = 0x0150
	lsStackLo        = 0xd900
	lsStackHi        = 0xdb00
	lsMaxInstrCycles = 40
)

// data windows the generated programs may point into (LCD off: all plain memory)
type window struct{ lo, hi uint16 } // inclusive

var lsWindows = []window{
	{0xc800, 0xd7ff}, // work RAM
	{0xdc00, 0xddff}, // work RAM, upper part (has an echo)
	{0xe800, 0xf7ff}, // echo of c800-d7ff
	{0xfc00, 0xfdff}, // echo of dc00-ddff
	{0xff80, 0xfff8}, // high RAM
	{0x8000, 0x9fff}, // video RAM (LCD off)
	{0xfe00, 0xfeff}, // OAM and the unusable area behind it (LCD off)
	{0x0000, 0x7fff}, // ROM: reads; writes are ignored by a ROM-only cartridge
}

func pickAddr(r *engine.Rand, span int) uint16 {
	w := lsWindows[r.Intn(len(lsWindows))]
	if span >= 2 && r.Chance(1, 6) {
		// a multi-byte operand that straddles a 256-byte page inside the window
		if lo, hi := int(w.lo)|0xff, int(w.hi)-span+1; lo <= hi {
			a := lo + 0x100*r.Intn((hi-lo)/0x100+1)
			return uint16(a - r.Intn(span-1))
		}
	}
	if r.Chance(1, 3) {
		// near the edges of the window
		if r.Bool() {
			return w.lo + uint16(r.Intn(3))
		}
		return w.hi - uint16(span-1) - uint16(r.Intn(3))
	}
	return w.lo + uint16(r.Intn(int(w.hi-w.lo)-span+2))
}

// ---- program builder -------------------------------------------------------------------

type progGen struct {
	r       *engine.Rand
	base    uint16
	code    []byte
	marks   []int  // offsets of the tested instructions
	preOp   []byte // emitted directly before the next tested opcode (e.g. HALT), then cleared
	ramOnly bool   // pointers only into writable plain memory (no ROM, no FEA0-FEFF, no IF)
	cartRAM bool   // also point into the cartridge RAM window (free-running workloads only)
	onlyOAM bool   // pointers only into FE00-FEFF (C17)
	noOAM   bool   // no pointers into FE00-FEFF (programs that run while a DMA transfer owns OAM)
	ioPtr   bool   // pointers into the I/O page (registers that are plain cells while their unit is off)
	preAt   int    // offset at which the last preOp was emitted
}

// lsIOPointers are hardware registers that behave as plain read/write cells with the LCD and the timer
// off: a memory operand may as well point at them (span 2: the next address qualifies too).
var lsIOPointers = []uint16{0xff05, 0xff06, 0xff42, 0xff43, 0xff45, 0xff47, 0xff4a, 0xff4b, 0xff0f, 0xff0f}
var lsIOPointers2 = []uint16{0xff05, 0xff42, 0xff4a}

func (g *progGen) pick(span int) uint16 {
	if g.ioPtr {
		if span >= 2 {
			return engine.Pick(g.r, lsIOPointers2)
		}
		return engine.Pick(g.r, lsIOPointers)
	}
	if g.onlyOAM {
		if g.r.Chance(1, 4) {
			return uint16(0xfea0 - 2 + g.r.Intn(4))
		}
		return 0xfe00 + uint16(g.r.Intn(0x100-span))
	}
	if g.cartRAM && g.r.Chance(1, 4) {
		if g.r.Chance(1, 2) {
			return 0xa000 + uint16(g.r.Intn(16))
		}
		return 0xa000 + uint16(g.r.Intn(0x2000-span))
	}
	for {
		a := pickAddr(g.r, span)
		if g.noOAM && a >= 0xfe00-uint16(span) && a <= 0xfeff {
			continue
		}
		if !g.ramOnly {
			return a
		}
		if a < 0x8000 || (a >= 0xfea0-uint16(span) && a <= 0xfeff) {
			continue
		}
		return a
	}
}

func (g *progGen) emitPre() {
	g.preAt = len(g.code)
	g.code = append(g.code, g.preOp...)
	g.preOp = nil
}

// opUsesStack: opcodes for which emitUnit re-points SP.
func opUsesStack(op uint8) bool {
	x, y, z := op>>6, (op>>3)&7, op&7
	return op == 0xc9 || op == 0xd9 || (x == 3 && (z == 0 && y < 4 || z == 1 && y&1 == 0 || z == 4 && y < 4 || z == 5 || z == 7))
}

// pairPrev are the instructions emitPair places directly before the tested one: every
// conditional and unconditional jump/call/return (whose early-finish state must not leak into
// the next instruction), and a few ordinary ones.
var pairPrev = []uint8{0x18, 0x20, 0x28, 0x30, 0x38, 0xc3, 0xc2, 0xca, 0xd2, 0xda, 0xcd, 0xc4, 0xcc, 0xd4, 0xdc, 0xc9, 0xc0, 0xc8, 0xd0, 0xd8,
	0x00, 0x3c, 0x37, 0x3f, 0xaf, 0xf3}

// emitPair emits `next` (with the pointer setup it needs) directly preceded by `prev`, with
// nothing in between: a taken jump/call/return lands exactly on `next`. It returns false if
// the combination is not supported (prev and next both need the stack).
func (g *progGen) emitPair(prev uint8, next uint8, nextCB bool) bool {
	isCall := prev == 0xcd || prev == 0xc4 || prev == 0xcc || prev == 0xd4 || prev == 0xdc
	isRet := prev == 0xc9 || prev == 0xc0 || prev == 0xc8 || prev == 0xd0 || prev == 0xd8
	isJP := prev == 0xc3 || prev == 0xc2 || prev == 0xca || prev == 0xd2 || prev == 0xda
	if (isCall || isRet) && !nextCB && (opUsesStack(next) || next == 0x31 || next == 0xf9 || next == 0xe8 || next == 0x33 || next == 0x3b) {
		return false
	}
	ph := -1
	switch {
	case isCall:
		g.emitStackSetup()
		g.preOp = []byte{prev, 0, 0}
	case isRet:
		g.emitStackSetup()
		ph = len(g.code) + 1
		g.emit16(0x11, 0) // LD DE,<address of next> (patched below)
		g.emit(0xd5)      // PUSH DE
		g.preOp = []byte{prev}
	case isJP:
		g.preOp = []byte{prev, 0, 0}
	case prev == 0x18 || prev == 0x20 || prev == 0x28 || prev == 0x30 || prev == 0x38:
		g.preOp = []byte{prev, 0}
	default:
		g.preOp = []byte{prev}
	}
	n := len(g.preOp)
	off := g.emitUnit(next, nextCB, false)
	tgt := g.base + uint16(off)
	if isCall || isJP {
		g.code[g.preAt+1], g.code[g.preAt+2] = byte(tgt), byte(tgt>>8)
	}
	if ph >= 0 {
		g.code[ph], g.code[ph+1] = byte(tgt), byte(tgt>>8)
	}
	_ = n
	return true
}

func (g *progGen) here() uint16   { return g.base + uint16(len(g.code)) }
func (g *progGen) emit(b ...byte) { g.code = append(g.code, b...) }
func (g *progGen) emit16(op byte, v uint16) {
	g.code = append(g.code, op, byte(v), byte(v>>8))
}

func isCond(op uint8) bool {
	switch op {
	case 0x20, 0x28, 0x30, 0x38, 0xc0, 0xc8, 0xd0, 0xd8, 0xc2, 0xca, 0xd2, 0xda, 0xc4, 0xcc, 0xd4, 0xdc:
		return true
	}
	return false
}

// lockstepOps are the base opcodes usable in lock-step programs: all defined opcodes
// except HALT and STOP (and the CB prefix itself).
var lockstepOps = func() []uint8 {
	var ops []uint8
	for i := 0; i < 256; i++ {
		op := uint8(i)
		if dmgref.IsUndefinedOpcode(op) || op == 0x76 || op == 0x10 || op == 0xcb {
			continue
		}
		ops = append(ops, op)
	}
	return ops
}()

// emitStackSetup makes SP point into the stack window.
func (g *progGen) emitStackSetup() {
	g.emit16(0x31, uint16(g.r.Range(lsStackLo+0x40, lsStackHi-0x40)))
}

// filler emits n single-byte register instructions (skipped by taken branches).
func (g *progGen) filler(n int) {
	pool := []uint8{0x00, 0x04, 0x0c, 0x14, 0x1c, 0x3c, 0x05, 0x0d, 0x3d, 0x07, 0x17, 0x2f, 0x37, 0x3f, 0x47, 0x78, 0x80, 0xa8, 0xb1}
	for i := 0; i < n; i++ {
		g.emit(engine.Pick(g.r, pool))
	}
}

// emitUnit emits the pointer/stack setup an opcode needs followed by the opcode itself.
// It returns the offset of the tested opcode.
func (g *progGen) emitUnit(op uint8, cb bool, allowIE bool) int {
	r := g.r
	if cb {
		if op&7 == 6 {
			g.emit16(0x21, g.pick(1))
		}
		g.emitPre()
		off := len(g.code)
		g.emit(0xcb, op)
		g.marks = append(g.marks, off)
		return off
	}
	x, y, z := op>>6, (op>>3)&7, op&7
	usesHL := (x == 1 && (z == 6 || y == 6)) || (x == 2 && z == 6) || (x == 0 && (z == 4 || z == 5 || z == 6) && y == 6) ||
		op == 0x22 || op == 0x2a || op == 0x32 || op == 0x3a
	switch {
	case usesHL:
		g.emit16(0x21, g.pick(1))
	case op == 0x02 || op == 0x0a:
		g.emit16(0x01, g.pick(1))
	case op == 0x12 || op == 0x1a:
		g.emit16(0x11, g.pick(1))
	case op == 0xe2 || op == 0xf2:
		if g.ioPtr && op == 0xe2 && g.r.Chance(1, 5) {
			g.emit(0x0e, 0x46) // the store starts an OAM DMA transfer: a store like any other, in its documented cycle
		} else {
			g.emit(0x0e, g.hramOffset(allowIE))
		}
	case op == 0xe9:
		// JP (HL): target is the instruction after it plus some filler
		g.emit16(0x21, g.here()+3+1+2+uint16(len(g.preOp)))
	}
	stack := op == 0xc9 || op == 0xd9 || (x == 3 && (z == 0 && y < 4 || z == 1 && y&1 == 0 || z == 4 && y < 4 || z == 5 || z == 7))
	if stack {
		g.emitStackSetup()
	}
	isRet := op == 0xc9 || op == 0xd9 || (x == 3 && z == 0 && y < 4)
	if isRet {
		// push a valid return address: the instruction after the RET plus filler
		skip := r.Intn(3)
		tgt := g.here() + 3 + 1 + 1 + uint16(skip) + uint16(len(g.preOp))
		g.emit16(0x11, tgt) // LD DE,tgt
		g.emit(0xd5)        // PUSH DE
		g.emitPre()
		off := len(g.code)
		g.emit(op)
		g.marks = append(g.marks, off)
		g.filler(skip)
		return off
	}
	g.emitPre()
	off := len(g.code)
	g.marks = append(g.marks, off)
	switch {
	case op == 0x18 || op == 0x20 || op == 0x28 || op == 0x30 || op == 0x38: // JR
		skip := r.Intn(4)
		g.emit(op, uint8(skip))
		g.filler(skip)
	case op == 0xc3 || (x == 3 && z == 2 && y < 4) || op == 0xcd || (x == 3 && z == 4 && y < 4): // JP/CALL
		skip := r.Intn(4)
		g.emit16(op, g.here()+3+uint16(skip))
		g.filler(skip)
	case op == 0xe9:
		g.emit(op)
		g.filler(2)
	case op == 0x08:
		g.emit16(op, g.pick(2))
	case op == 0xea || op == 0xfa:
		g.emit16(op, g.pick(1))
	case op == 0xe0 && g.ioPtr && g.r.Chance(1, 5):
		g.emit(op, 0x46) // the store starts an OAM DMA transfer: a store like any other, in its documented cycle
	case op == 0xe0 || op == 0xf0:
		g.emit(op, g.hramOffset(allowIE))
	case op == 0x31:
		g.emit16(op, uint16(r.Range(lsStackLo+0x40, lsStackHi-0x40)))
	case op == 0x01 || op == 0x11 || op == 0x21:
		g.emit16(op, r.EdgeU16())
	case x == 0 && z == 6, x == 3 && z == 6, op == 0xe8, op == 0xf8: // 8-bit immediate
		g.emit(op, r.EdgeByte())
	default:
		g.emit(op)
	}
	return off
}

func (g *progGen) hramOffset(allowIE bool) uint8 {
	if g.ioPtr {
		return uint8(engine.Pick(g.r, lsIOPointers))
	}
	if allowIE && g.r.Chance(1, 3) {
		if g.r.Bool() {
			return 0x0f
		}
		return 0xff
	}
	if !g.ramOnly && g.r.Chance(1, 6) {
		return 0x0f // IF
	}
	return uint8(g.r.Range(0x80, 0xf8))
}

// finish appends the terminating endless loop.
func (g *progGen) finish() {
	g.emit(0x18, 0xfe)
}

// ---- scenario fields -------------------------------------------------------------------

// lsScenario fills the common lock-step fields of a scenario.
func lsScenario(sc *engine.Scenario, r *engine.Rand, g *progGen) {
	sc.SetStr("prog", engine.Hex(g.code))
	sc.SetP("base", int64(g.base))
	sc.SetP("fill", int64(r.U64()>>1))
	sc.SetP("a", int64(r.EdgeByte()))
	sc.SetP("f", int64(r.Byte()&0xf0))
	sc.SetP("b", int64(r.EdgeByte()))
	sc.SetP("c", int64(r.EdgeByte()))
	sc.SetP("d", int64(r.EdgeByte()))
	sc.SetP("e", int64(r.EdgeByte()))
	sc.SetP("h", int64(r.EdgeByte()))
	sc.SetP("l", int64(r.EdgeByte()))
	sc.SetP("sp", int64(r.Range(lsStackLo+0x40, lsStackHi-0x40)))
	if g.base == lsCodeROM {
		sc.Cart = engine.CartSpec{Kind: "rom", Program: engine.Hex(g.code), Entry: lsCodeROM, FillSeed: uint64(r.U64())}
	} else {
		sc.Cart = engine.CartSpec{Kind: "rom", Program: "18fe", FillSeed: uint64(r.U64())}
	}
}

// ---- the lock-step machine -------------------------------------------------------------

type lsMismatch struct {
	kind   string // cycles, regs, mem, buswrite, buswrite-missing, buswrite-cycle, busread, busread-cycle, if, ie, halted, flags-low, stray, stuck, undefined
	detail string
}

type lockstep struct {
	oamLoose bool // stores into FE00-FEFF are not compared in memory (LCD on: C17's business)
	m        *machine.Machine
	ref      dmgref.CPU
	cart     *dmgref.Cart
	shadow   [0x10000]byte
	ifReg    uint8
	ieReg    uint8
	res      *engine.Result
	sc       *engine.Scenario

	k          int // real cycles of the instruction in flight
	instrs     int
	pre        cpu.VerifRegs
	events     []engine.Event
	ei         int
	stopped    bool
	irqMid     bool             // an interrupt line rose while the current instruction was in flight
	haltAt     uint64           // boundary at which the (first) HALT instruction finished, 0 = not yet
	relEvents  []engine.Event   // events relative to the HALT
	pendingArm func()           // run once after the next re-synchronisation
	ifRefEnd   uint8            // the reference IF at the end of the instruction, before re-synchronisation
	ppu        dmgref.PPUTiming // reference LCD timing (follows the guest's LCDC writes)
	mode2Seen  bool             // the reference was in mode 2 at some boundary of the instruction in flight

	realWrites []dmgref.Access // bus writes of the real CPU during the instruction in flight (hook H4)
	realReads  []dmgref.Access // bus reads of the real CPU (instruction stream and data) during it
	// preroll: the CPU spins in a JR loop in high RAM (in lock step like everything else) until this
	// boundary, then the program proper starts; places a program at a chosen phase of the frame loop
	prerollUntil uint64
	prerollPC    uint16

	// per-instruction callback: return false to stop the run
	onInstr func(l *lockstep, realCycles int, mism []lsMismatch) bool
	// per-cycle callback (after the real and the reference cycle k of the instruction)
	onCycle func(l *lockstep)
	dg      engine.Digest
}

// reference bus ---------------------------------------------------------------------------

func (l *lockstep) plain(a uint16) (uint16, bool) {
	switch {
	case a >= 0x8000 && a < 0xa000:
		return a, true
	case a >= 0xc000 && a < 0xe000:
		return a, true
	case a >= 0xe000 && a < 0xfe00:
		return a - 0x2000, true
	case a >= 0xfe00 && a < 0xfea0:
		return a, true
	case a >= 0xff80 && a < 0xffff:
		return a, true
	}
	return 0, false
}

func (l *lockstep) Fetch(a uint16) uint8 { return l.Read(a) }
func (l *lockstep) Read(a uint16) uint8 {
	if p, ok := l.plain(a); ok {
		return l.shadow[p]
	}
	switch {
	case a < 0x8000 || (a >= 0xa000 && a < 0xc000):
		v, _ := l.cart.Read(a)
		return v
	case a >= 0xfea0 && a < 0xff00:
		return 0
	case a == 0xff0f:
		return 0xe0 | l.ifReg
	case a == 0xffff:
		return l.ieReg
	}
	// volatile I/O register: pass through to the real bus (no side effects with the LCD off)
	return l.m.Read(a)
}
func (l *lockstep) Write(a uint16, v uint8) {
	if p, ok := l.plain(a); ok {
		l.shadow[p] = v
		return
	}
	switch {
	case a < 0x8000 || (a >= 0xa000 && a < 0xc000):
		l.cart.Write(a, v)
	case a == 0xff0f:
		l.ifReg = v & 0x1f
	case a == 0xffff:
		l.ieReg = v
	}
}
func (l *lockstep) IF() uint8      { return l.ifReg }
func (l *lockstep) IE() uint8      { return l.ieReg }
func (l *lockstep) AckIF(bit uint) { l.ifReg &^= 1 << bit }

// pokeBoth writes plain memory in the real machine and in the shadow.
func (l *lockstep) pokeBoth(a uint16, v uint8) {
	l.m.Write(a, v)
	l.Write(a, v)
}

func newLockstep(sc *engine.Scenario, res *engine.Result) *lockstep {
	m := build(sc, res)
	if m == nil {
		return nil
	}
	l := &lockstep{m: m, res: res, sc: sc, dg: engine.NewDigest()}
	l.oamLoose = sc.Class == "oam-pointer-lcd-on"
	img, _ := cartImage(sc)
	l.cart = dmgref.NewCart(img)
	m.GuardUndefined = true
	m.TapBus()
	m.OnBusWrite = func(a uint16, v uint8) {
		l.realWrites = append(l.realWrites, dmgref.Access{Cycle: l.k + 1, Write: true, Addr: a, Val: v})
	}
	m.OnBusRead = func(a uint16, v uint8) {
		l.realReads = append(l.realReads, dmgref.Access{Cycle: l.k + 1, Addr: a, Val: v})
	}
	l.ref.Bus = l
	// quiesce the hardware parties that could raise interrupt lines on their own
	l.ppu.SwitchOn() // power-on state
	if sc.P("keep_lcd", 0) == 0 {
		m.Write(0xff40, 0x00) // LCD off
		l.ppu.SwitchOff()
	}
	m.Write(0xff07, 0x00) // timer off
	// fill the plain memory windows
	fr := engine.NewRand(uint64(sc.P("fill", 1)))
	fill := func(lo, hi uint16) {
		for a := uint32(lo); a <= uint32(hi); a++ {
			l.pokeBoth(uint16(a), fr.Byte())
		}
	}
	fill(0xc000, 0xdfff)
	fill(0xff80, 0xfffe)
	fill(0x8000, 0x9fff)
	// OAM is filled through the side-effect-free accessor: bus writes to FE00-FEFF are
	// themselves events for the OAM-bug machinery
	{
		var o [0xa0]byte
		code := engine.UnHex(sc.Str("oam_code")) // instructions placed in OAM (a guest that runs code from there)
		for i := range o {
			o[i] = fr.Byte()
			if i < len(code) {
				o[i] = code[i]
			}
			l.shadow[0xfe00+i] = o[i]
		}
		m.OAM.VerifPoke(o)
	}
	base := uint16(sc.P("base", lsCodeROM))
	prog := engine.UnHex(sc.Str("prog"))
	if base >= 0x8000 {
		for i, b := range prog {
			l.pokeBoth(base+uint16(i), b)
		}
	}
	regs := cpu.VerifRegs{
		A: uint8(sc.P("a", 0)), F: uint8(sc.P("f", 0)) & 0xf0, B: uint8(sc.P("b", 0)), C: uint8(sc.P("c", 0)),
		D: uint8(sc.P("d", 0)), E: uint8(sc.P("e", 0)), H: uint8(sc.P("h", 0)), L: uint8(sc.P("l", 0)),
		SP: uint16(sc.P("sp", 0xdffe)), PC: base,
	}
	m.CPU.VerifSetRegs(regs)
	ie := uint8(sc.P("ie", 0))
	iff := uint8(sc.P("if", 0))
	m.Write(0xffff, ie)
	m.Write(0xff0f, iff)
	l.ieReg, l.ifReg = ie, iff&0x1f
	if sc.P("ime", 0) != 0 {
		m.IRQ.Enable()
		l.ref.IME = true
	} else {
		m.IRQ.Disable()
	}
	if pr := sc.P("preroll", 0); pr > 0 {
		l.pokeBoth(0xfffc, 0x18)
		l.pokeBoth(0xfffd, 0xfe)
		l.prerollUntil, l.prerollPC = uint64(pr), base
		regs.PC = 0xfffc
		m.CPU.VerifSetRegs(regs)
	}
	for _, ev := range sc.Events {
		if ev.K == "irq_h" {
			l.relEvents = append(l.relEvents, ev)
		} else {
			l.events = append(l.events, ev)
		}
	}
	l.syncRegs()
	return l
}

func cartImage(sc *engine.Scenario) ([]byte, error) {
	return cartBuild(sc.Cart)
}

func (l *lockstep) syncRegs() {
	r := l.m.CPU.VerifGetRegs()
	l.pre = r
	c := &l.ref
	c.A, c.F, c.B, c.C, c.D, c.E, c.H, c.L, c.SP, c.PC = r.A, r.F, r.B, r.C, r.D, r.E, r.H, r.L, r.SP, r.PC
}

func (l *lockstep) applyEvents() {
	if l.haltAt != 0 {
		for i := range l.relEvents {
			ev := &l.relEvents[i]
			if ev.K == "irq_h" && l.haltAt+uint64(ev.N) == l.m.N {
				l.m.RaiseIRQ(int(ev.A))
				l.ifReg |= 1 << ev.A
				l.res.Fault("irq_line_" + fmt.Sprint(ev.A))
				l.res.Probe("irq_after_halt")
				if l.k > 0 {
					l.irqMid = true
				}
				ev.K = "done"
			}
		}
	}
	for l.ei < len(l.events) && l.events[l.ei].At <= l.m.N {
		ev := &l.events[l.ei]
		l.ei++
		switch ev.K {
		case "irq":
			l.m.RaiseIRQ(int(ev.A))
			l.ifReg |= 1 << ev.A
			l.res.Fault("irq_line_" + fmt.Sprint(ev.A))
			if l.k > 0 {
				l.irqMid = true
				l.res.Probe("irq_raised_mid_instruction")
			}
		case "key":
			l.m.Key(controllerButton(int(ev.A)), ev.V != 0)
			l.res.Fault("key")
		case "poke":
			l.pokeBoth(ev.A, ev.V)
			l.res.Fault("poke")
		case "dma":
			// an OAM DMA transfer started by the scheduler (real machine only: the reference CPU does
			// not model OAM contents during a transfer, so only checks that ignore data use this)
			l.m.Write(0xff46, ev.V)
			l.res.Fault("dma_start")
			if l.k > 0 {
				l.res.Probe("dma_started_mid_instruction")
			}
		}
	}
}

// run executes up to maxCycles machine cycles in lock step.
func (l *lockstep) run(maxCycles uint64) {
	m := l.m
	l.applyEvents() // boundary 0
	l.k = 0
	m.OnCycle = func() {
		l.k++
		if l.ppu.On && l.ppu.Mode() == 2 {
			l.mode2Seen = true // mode 2 at the boundary before this cycle
		}
		if l.k == 1 || !l.ref.AtBoundary() {
			l.ref.Cycle()
			for _, a := range l.ref.Acc {
				if a.Write && a.Addr == 0xff40 && a.Cycle == l.ref.Cycles {
					if a.Val&0x80 != 0 && !l.ppu.On {
						l.ppu.SwitchOn()
					} else if a.Val&0x80 == 0 && l.ppu.On {
						l.ppu.SwitchOff()
					}
				}
			}
		}
		if l.ref.Kind == "halt-wake" && l.k == 1 && !l.ref.NoWakeCycle {
			// The statement does not say whether leaving HALT with the master enable clear costs a machine
			// cycle of its own. The reference spends one (DMG). If the real CPU is not sitting unchanged at
			// the instruction after the HALT now, it resumed without such a cycle: the reference follows
			// (for the rest of the run) and executes the first cycle of that instruction instead.
			if r := m.CPU.VerifGetRegs(); !(m.CPU.VerifAtBoundary() && r.PC == l.pre.PC) && !m.CPU.VerifHalted() {
				l.ref.NoWakeCycle = true
				l.ref.Halted = true
				l.ref.Cycle()
				l.res.Probe("wake_no_dispatch")
				l.res.Probe("wake_without_a_cycle_of_its_own")
			}
		}
		l.ppu.Tick()
		if l.ppu.On && l.ppu.Mode() == 2 {
			l.mode2Seen = true
		}
		if l.onCycle != nil {
			l.onCycle(l)
		}
		if m.CPU.VerifAtBoundary() || l.k >= lsMaxInstrCycles {
			if !l.finishInstr() {
				l.stopped = true
				m.Stop()
				return
			}
		}
		l.applyEvents()
		if m.N >= maxCycles && l.k == 0 {
			l.stopped = true
			m.Stop()
		}
	}
	m.RunCycles(maxCycles + lsMaxInstrCycles + 1)
	if m.StoppedOnUndefined && l.res.Harness == "" && l.res.Violation == nil && l.sc.Class != "code-in-oam" {
		l.res.Harness = fmt.Sprintf("generated program ran into an undefined opcode at %04x", m.CPU.VerifGetRegs().PC)
	}
	l.res.Cycles = m.N
	l.res.Digest = uint64(l.dg)
}

// finishInstr compares the two CPUs at an instruction boundary of the real CPU.
func (l *lockstep) finishInstr() bool {
	m := l.m
	var mism []lsMismatch
	realCycles := l.k
	if l.k >= lsMaxInstrCycles && !m.CPU.VerifAtBoundary() {
		mism = append(mism, lsMismatch{"stuck", fmt.Sprintf("instruction at %04x not finished after %d cycles", l.pre.PC, l.k)})
	}
	for !l.ref.AtBoundary() {
		l.ref.Cycle()
	}
	c := &l.ref
	if c.Undefined {
		mism = append(mism, lsMismatch{"undefined", fmt.Sprintf("undefined opcode at %04x reached by a generated program", c.OpPC)})
	}
	if realCycles != c.Cycles {
		mism = append(mism, lsMismatch{"cycles", fmt.Sprintf("%s took %d cycles, documented %d", l.describe(), realCycles, c.Cycles)})
	}
	r := m.CPU.VerifGetRegs()
	if r.A != c.A || r.F != c.F || r.B != c.B || r.C != c.C || r.D != c.D || r.E != c.E || r.H != c.H || r.L != c.L || r.SP != c.SP || r.PC != c.PC {
		mism = append(mism, lsMismatch{"regs", fmt.Sprintf("%s: got A=%02x F=%02x BC=%02x%02x DE=%02x%02x HL=%02x%02x SP=%04x PC=%04x, documented A=%02x F=%02x BC=%02x%02x DE=%02x%02x HL=%02x%02x SP=%04x PC=%04x (before: A=%02x F=%02x BC=%02x%02x DE=%02x%02x HL=%02x%02x SP=%04x)",
			l.describe(), r.A, r.F, r.B, r.C, r.D, r.E, r.H, r.L, r.SP, r.PC, c.A, c.F, c.B, c.C, c.D, c.E, c.H, c.L, c.SP, c.PC,
			l.pre.A, l.pre.F, l.pre.B, l.pre.C, l.pre.D, l.pre.E, l.pre.H, l.pre.L, l.pre.SP)})
	}
	if r.F&0x0f != 0 {
		mism = append(mism, lsMismatch{"flags-low", fmt.Sprintf("%s: F=%02x has low bits set", l.describe(), r.F)})
	}
	for _, acc := range c.Acc {
		if !acc.Write {
			continue
		}
		var got uint8
		if l.oamLoose && acc.Addr >= 0xfe00 && acc.Addr <= 0xfeff {
			continue
		}
		if acc.Addr >= 0xfe00 && acc.Addr < 0xfea0 {
			o := m.PeekOAM()
			got = o[acc.Addr-0xfe00]
		} else {
			got = m.Read(acc.Addr)
		}
		want := l.Read(acc.Addr)
		if got != want {
			mism = append(mism, lsMismatch{"mem", fmt.Sprintf("%s: memory %04x holds %02x, documented %02x", l.describe(), acc.Addr, got, want)})
		}
	}
	// the bus writes the real CPU performed during this instruction (or dispatch), one by one, against
	// the documented ones: address, value and machine cycle
	{
		var want []dmgref.Access
		for _, acc := range c.Acc {
			if acc.Write {
				want = append(want, acc)
			}
		}
		got := l.realWrites
		n := len(got)
		if len(want) < n {
			n = len(want)
		}
		for i := 0; i < n; i++ {
			g, w := got[i], want[i]
			switch {
			case g.Addr != w.Addr || g.Val != w.Val:
				mism = append(mism, lsMismatch{"buswrite", fmt.Sprintf("%s: bus write number %d is %04x<-%02x, documented %04x<-%02x", l.describe(), i+1, g.Addr, g.Val, w.Addr, w.Val)})
			case g.Cycle != w.Cycle && c.Kind != "instr":
				// in which of its cycles an interrupt dispatch pushes is not documented by any statement
				continue
			case g.Cycle != w.Cycle:
				mism = append(mism, lsMismatch{"buswrite-cycle", fmt.Sprintf("%s: the write %04x<-%02x happened in machine cycle %d of the instruction, documented %d", l.describe(), g.Addr, g.Val, g.Cycle, w.Cycle)})
			default:
				continue
			}
			break
		}
		if len(mism) == 0 || (mism[len(mism)-1].kind != "buswrite" && mism[len(mism)-1].kind != "buswrite-cycle") {
			if len(got) < len(want) {
				w := want[len(got)]
				mism = append(mism, lsMismatch{"buswrite-missing", fmt.Sprintf("%s: the documented write %04x<-%02x (machine cycle %d) was not performed (%d of %d writes seen on the bus)", l.describe(), w.Addr, w.Val, w.Cycle, len(got), len(want))})
			} else if len(got) > len(want) {
				g := got[len(want)]
				mism = append(mism, lsMismatch{"buswrite", fmt.Sprintf("%s: undocumented bus write %04x<-%02x in machine cycle %d (%d writes documented)", l.describe(), g.Addr, g.Val, g.Cycle, len(want))})
			}
		}
		l.realWrites = l.realWrites[:0]
	}
	// the data reads of the real CPU: what is left of its bus reads once the instruction-stream bytes
	// are taken out, against the documented data reads (address and machine cycle)
	{
		left := append([]uint16(nil), c.Fetched...)
		var got []dmgref.Access
		for _, rd := range l.realReads {
			isFetch := false
			for i, fa := range left {
				if fa == rd.Addr {
					left = append(left[:i], left[i+1:]...)
					isFetch = true
					break
				}
			}
			if !isFetch {
				got = append(got, rd)
			}
		}
		var want []dmgref.Access
		for _, acc := range c.Acc {
			if !acc.Write {
				want = append(want, acc)
			}
		}
		switch {
		case len(got) > len(want):
			g := got[len(want)]
			mism = append(mism, lsMismatch{"busread", fmt.Sprintf("%s: undocumented data read of %04x in machine cycle %d (%d data reads documented, %d seen on the bus)", l.describe(), g.Addr, g.Cycle, len(want), len(got))})
		case len(got) < len(want):
			w := want[len(got)]
			mism = append(mism, lsMismatch{"busread", fmt.Sprintf("%s: the documented read of %04x (machine cycle %d) was not performed", l.describe(), w.Addr, w.Cycle)})
		default:
			for i := range got {
				if got[i].Addr != want[i].Addr {
					mism = append(mism, lsMismatch{"busread", fmt.Sprintf("%s: data read number %d is from %04x, documented %04x", l.describe(), i+1, got[i].Addr, want[i].Addr)})
					break
				}
				if got[i].Cycle != want[i].Cycle && c.Kind == "instr" {
					mism = append(mism, lsMismatch{"busread-cycle", fmt.Sprintf("%s: the read of %04x happened in machine cycle %d of the instruction, documented %d", l.describe(), got[i].Addr, got[i].Cycle, want[i].Cycle)})
					break
				}
			}
		}
		l.realReads = l.realReads[:0]
	}
	l.ifRefEnd = l.ifReg
	if iff := m.IRQ.ReadIF() & 0x1f; iff != l.ifReg {
		mism = append(mism, lsMismatch{"if", fmt.Sprintf("%s: IF=%02x, documented %02x", l.describe(), iff, l.ifReg)})
		l.ifReg = iff
	}
	if ie := m.IRQ.ReadIE(); ie != l.ieReg {
		mism = append(mism, lsMismatch{"ie", fmt.Sprintf("%s: IE=%02x, documented %02x", l.describe(), ie, l.ieReg)})
		l.ieReg = ie
	}
	if m.CPU.VerifHalted() != c.Halted {
		mism = append(mism, lsMismatch{"halted", fmt.Sprintf("%s: halted=%v, documented %v", l.describe(), m.CPU.VerifHalted(), c.Halted)})
		c.Halted = m.CPU.VerifHalted()
	}
	if l.haltAt == 0 && c.Kind == "instr" && l.Read(c.OpPC) == 0x76 {
		l.haltAt = m.N
	}
	l.dg.U16(r.PC)
	l.dg.Byte(r.A)
	l.dg.Byte(r.F)
	l.dg.U16(r.SP)
	l.dg.Byte(uint8(realCycles))
	l.instrs++
	ok := true
	if l.prerollUntil != 0 {
		// the pre-roll loop is judged like any other code (OpPC fffc tells the callbacks apart)
		if l.onInstr != nil {
			ok = l.onInstr(l, realCycles, mism)
		}
		if m.N >= l.prerollUntil {
			rg := m.CPU.VerifGetRegs()
			rg.PC = l.prerollPC
			m.CPU.VerifSetRegs(rg)
			l.prerollUntil = 0
			l.res.Probe("program_started_after_preroll")
		}
	} else if l.onInstr != nil {
		ok = l.onInstr(l, realCycles, mism)
	}
	l.k = 0
	l.irqMid = false
	l.mode2Seen = false
	l.syncRegs()
	if ok && l.pendingArm != nil {
		f := l.pendingArm
		l.pendingArm = nil
		f()
	}
	return ok
}

func (l *lockstep) describe() string {
	c := &l.ref
	switch c.Kind {
	case "dispatch":
		return fmt.Sprintf("interrupt dispatch to %04x at PC=%04x", c.Vector, l.pre.PC)
	case "halt-idle":
		return fmt.Sprintf("HALT idle cycle at PC=%04x", l.pre.PC)
	case "halt-wake":
		return fmt.Sprintf("HALT wake-up at PC=%04x", l.pre.PC)
	}
	return fmt.Sprintf("opcode %s at %04x", l.opName(), c.OpPC)
}

func (l *lockstep) opName() string {
	b0 := l.Read(l.ref.OpPC)
	if b0 == 0xcb {
		return fmt.Sprintf("cb%02x", l.Read(l.ref.OpPC+1))
	}
	return fmt.Sprintf("%02x", b0)
}

// opKey returns a stable key for the instruction just executed, for signatures/classes.
func (l *lockstep) opKey() string {
	switch l.ref.Kind {
	case "instr":
		return l.opName()
	}
	return l.ref.Kind
}

// compareShadow compares every plain memory window of the real machine with the shadow.
func (l *lockstep) compareShadow() *lsMismatch {
	m := l.m
	chk := func(lo, hi uint16) *lsMismatch {
		for a := uint32(lo); a <= uint32(hi); a++ {
			if got := m.Read(uint16(a)); got != l.shadow[a] {
				return &lsMismatch{"stray", fmt.Sprintf("memory %04x holds %02x, documented %02x: changed by something other than the documented accesses", a, got, l.shadow[a])}
			}
		}
		return nil
	}
	for _, w := range [][2]uint16{{0xc000, 0xdfff}, {0xff80, 0xfffe}, {0x8000, 0x9fff}} {
		if l.oamLoose && w[0] == 0x8000 {
			continue // LCD on: video memory is not always readable
		}
		if mm := chk(w[0], w[1]); mm != nil {
			return mm
		}
	}
	if l.oamLoose {
		return nil
	}
	o := m.PeekOAM()
	for i := 0; i < 0xa0; i++ {
		if o[i] != l.shadow[0xfe00+i] {
			return &lsMismatch{"stray", fmt.Sprintf("OAM %04x holds %02x, documented %02x", 0xfe00+i, o[i], l.shadow[0xfe00+i])}
		}
	}
	return nil
}

// acceptLateVector implements the one open point of interrupt dispatch: when the pending set
// changes during the dispatch cycles, the vector may correspond to the set at the boundary
// or at the end of the dispatch. It returns true (and re-synchronises the reference IF) if
// the real machine took the other documented-compatible vector.
func (l *lockstep) acceptLateVector(realCycles int) bool {
	if l.ref.Kind != "dispatch" || !l.irqMid {
		return false
	}
	r := l.m.CPU.VerifGetRegs()
	pend := l.ieReg & (l.ifRefEnd | 1<<uint((l.ref.Vector-0x40)/8)) & 0x1f
	for bit := uint(0); bit < 5; bit++ {
		if pend&(1<<bit) != 0 {
			alt := uint16(0x40 + 8*bit)
			if alt != l.ref.Vector && r.PC == alt && r.SP == l.ref.SP && realCycles == l.ref.Cycles {
				want := (l.ifRefEnd | 1<<uint((l.ref.Vector-0x40)/8)) &^ (1 << bit)
				if l.m.IRQ.ReadIF()&0x1f == want {
					l.ifReg = want
					l.res.Probe("vector_chosen_at_end_of_dispatch")
					return true
				}
			}
			return false
		}
	}
	return false
}
