package props

import (
	"fmt"

	"verifsim/dmgref"
	"verifsim/engine"
)

// C03 — memory reads and writes happen in the documented machine cycle.
//
// Simulated dimension: a peer that changes memory between machine cycles. While the tested
// instruction is in flight the scheduler writes a cycle-specific stamp into every location
// the instruction addresses, at every cycle boundary, in the real machine and in the
// reference's shadow memory. The value the instruction consumes identifies the cycle of its
// read; the first cycle after which a location no longer holds the stamp identifies the
// cycle of its write.
type c03 struct{}

func init() { engine.Register(c03{}) }

func (c03) ID() string { return "C03" }

func (c03) Budget(tier string) int {
	if tier == "thorough" {
		return 1500000
	}
	return 48000
}

func (c03) Describe() engine.Info {
	return engine.Info{
		Rule: "scenario = 0..6 random history instructions, then one memory-accessing instruction (every such base opcode and every CB (HL) opcode, cycled by index) whose addressed locations (HL, BC, DE, nn, FF00+n, FF00+C, SP..) lie in writable plain memory, with per-cycle stamps written to those locations by the scheduler; an interrupt line may rise mid-instruction (masked). " +
			"Oracle: a register mismatch at the end counts only if the real result is reproduced by the reference with the read moved to another cycle (then the read cycle is wrong); a write counts when the real location stops holding the stamp after a cycle other than the documented one. Signature = (opcode, memory window, history length class)." +
			" Classes stamped-frame-boundary (the tested instruction straddles two passes of the frame loop) and stamped-after-halt (it is the first instruction after a HALT wake-up); writes are also taken from the bus tap (hook H4): every documented write performed, in its documented cycle. IF (FF0F) is among the stamped pointer targets of class stamped-io-pointer (five-bit stamps; its write cycle is judged on the bus tap only). Stores to FF46 through LDH (n),A and LD (C),A (the store that starts a DMA transfer) are among the stamped targets. Class stamped-operand-coincidence: the immediate of LD (nn),SP / LD (nn),A / LD A,(nn) equals HL, BC, DE, SP or a neighbour of SP.",
		Assumptions: []string{
			"instruction-stream fetches (opcode, immediate operands) are outside the property and never stamped",
			"wrong values or wrong addresses with correct timing are C01's business and are not reported here",
			"interrupt dispatch pushes are not instructions and are not judged",
		},
		RequiredProbes: []string{"stamped_read", "stamped_write", "stamped_instruction"},
		RealComponents: realComponents, StubComponents: stubComponents,
	}
}

// memory-accessing opcodes
var c03Ops = func() (ops []struct {
	op uint8
	cb bool
}) {
	for i := 0; i < 256; i++ {
		op := uint8(i)
		if dmgref.IsUndefinedOpcode(op) || op == 0x76 || op == 0x10 || op == 0xcb {
			continue
		}
		x, y, z := op>>6, (op>>3)&7, op&7
		mem := (x == 1 && (z == 6 || y == 6)) || (x == 2 && z == 6) || (x == 0 && (z == 4 || z == 5 || z == 6) && y == 6) ||
			(x == 0 && z == 2) || op == 0x08 || op == 0xe0 || op == 0xf0 || op == 0xe2 || op == 0xf2 || op == 0xea || op == 0xfa ||
			op == 0xc9 || op == 0xd9 || (x == 3 && (z == 0 && y < 4 || z == 1 && y&1 == 0 || z == 4 && y < 4 || z == 5 || z == 7))
		if mem {
			ops = append(ops, struct {
				op uint8
				cb bool
			}{op, false})
		}
	}
	for i := 0; i < 256; i++ {
		if i&7 == 6 {
			ops = append(ops, struct {
				op uint8
				cb bool
			}{uint8(i), true})
		}
	}
	return
}()

func (c03) Generate(r *engine.Rand, index int, tier string) *engine.Scenario {
	sc := &engine.Scenario{Class: "stamped"}
	base := uint16(lsCodeWRAM)
	if r.Chance(1, 3) {
		base = lsCodeROM
	}
	g := &progGen{r: r, base: base}
	g.emitStackSetup()
	if index%32 == 9 {
		// the 16-bit immediate of LD (nn),SP / LD (nn),A / LD A,(nn) coincides with what a register pair
		// holds (HL, BC, DE, SP and its neighbours): the accesses keep their documented cycles and order
		sc.Class = "stamped-operand-coincidence"
		nn := uint16(0xc800 + r.Intn(0x1000))
		switch r.Intn(7) {
		case 0:
			g.emit16(0x21, nn)
		case 1:
			g.emit16(0x01, nn)
		case 2:
			g.emit16(0x11, nn)
		default:
			g.emit16(0x31, nn+uint16(engine.Pick(r, []int{0, 2, 2, 1, 0xffff, 3, 0xfffe})))
		}
		g.filler(r.Intn(3))
		off := len(g.code)
		g.emit16(engine.Pick(r, []uint8{0x08, 0x08, 0xea, 0xfa}), nn)
		g.filler(3)
		g.emitStackSetup()
		g.finish()
		lsScenario(sc, r, g)
		sc.SetP("tpc", int64(base)+int64(off))
		sc.SetP("hist", 0)
		sc.SetP("stamp", int64(r.Byte()&0x0f))
		sc.Cycles = uint64(len(g.code))*6 + 64
		return sc
	}
	hist := 0
	if r.Chance(2, 3) {
		hist = r.Range(1, 6)
	}
	straddle := index%8 == 3
	afterHalt := index%8 == 5
	if straddle {
		hist = 0
	}
	for i := 0; i < hist; i++ {
		if r.Chance(1, 3) {
			g.emitUnit(r.Byte(), true, false)
		} else {
			g.emitUnit(engine.Pick(r, lockstepOps), false, false)
		}
	}
	t := c03Ops[index%len(c03Ops)]
	g.ramOnly = true
	afterJump := index%8 == 1
	g.ioPtr = index%8 == 7
	if afterJump {
		// the tested instruction directly after a jump, call or return (conditional ones with both
		// outcomes: the flags come through the stack), nothing in between
		g.emitStackSetup()
		g.emit16(0x01, uint16(r.Intn(16))<<4|uint16(r.Byte())<<8)
		g.emit(0xc5, 0xf1)
	}
	if afterHalt {
		// the tested instruction is the first one after the CPU left HALT (master enable clear, woken by
		// a request raised some cycles later by the scheduler)
		g.preOp = []byte{0x76}
	}
	off := -1
	if afterJump && g.emitPair(engine.Pick(r, pairPrev), t.op, t.cb) {
		off = g.marks[len(g.marks)-1]
	}
	if off < 0 {
		afterJump = false
		off = g.emitUnit(t.op, t.cb, false)
	}
	g.preOp = nil
	g.ramOnly = false
	ioPtr := g.ioPtr
	g.ioPtr = false
	g.filler(3)
	g.finish()
	lsScenario(sc, r, g)
	sc.SetP("tpc", int64(base)+int64(off))
	sc.SetP("hist", int64(hist))
	sc.SetP("stamp", int64(r.Byte()&0x0f))
	total := uint64(len(g.code)) * 2
	if r.Chance(1, 2) {
		sc.Events = append(sc.Events, engine.Event{At: uint64(r.Intn(int(total) + 1)), K: "irq", A: uint16(r.Intn(5))})
	}
	sc.Cycles = total*3 + 64
	if afterJump {
		sc.Class = "stamped-after-jump"
	}
	if ioPtr {
		sc.Class = "stamped-io-pointer"
	}
	if afterHalt {
		sc.Class = "stamped-after-halt"
		line := r.Intn(5)
		sc.SetP("ie", int64(1<<uint(line)))
		sc.SetP("if", 0)
		sc.SetP("ime", 0)
		sc.Events = []engine.Event{{K: "irq_h", A: uint16(line), N: int64(r.Range(0, 40))}}
		sc.Cycles += 64
	}
	if straddle {
		// the tested instruction lies across the boundary between two passes of the frame loop
		sc.Class = "stamped-frame-boundary"
		sc.Events = nil
		sc.SetP("preroll", int64(17556*r.Range(1, 2)-r.Range(1, 22)))
		sc.Cycles += uint64(sc.P("preroll", 0))
	}
	return sc
}

// dryBus lets a copy of the reference CPU run an instruction without touching anything: reads
// come from the lock-step shadow unless overridden per access index; writes are dropped.
type dryBus struct {
	l        *lockstep
	n        int
	override map[int]uint8
}

func (d *dryBus) Fetch(a uint16) uint8 { return d.l.Read(a) }
func (d *dryBus) Read(a uint16) uint8 {
	i := d.n
	d.n++
	if v, ok := d.override[i]; ok {
		return v
	}
	return d.l.Read(a)
}
func (d *dryBus) Write(a uint16, v uint8) { d.n++ }
func (d *dryBus) IF() uint8               { return d.l.ifReg }
func (d *dryBus) IE() uint8               { return d.l.ieReg }
func (d *dryBus) AckIF(bit uint)          {}

func stampVal(base uint8, k int, j int) uint8 {
	return uint8(0x10*(k+1)) + uint8(3*j) + base
}

// stampAt is the stamp for location a: IF keeps five bits, so its stamps differ in those (and read
// back with the upper three set).
func stampAt(a uint16, base uint8, k int, j int) uint8 {
	if a == 0xff0f {
		return 0xe0 | (uint8(k*7+5)+base)&0x1f
	}
	return stampVal(base, k, j)
}

func (c03) Execute(sc *engine.Scenario) *engine.Result {
	res := &engine.Result{}
	l := newLockstep(sc, res)
	if l == nil {
		return res
	}
	tpc := uint16(sc.P("tpc", 0))
	sbase := uint8(sc.P("stamp", 0))
	armed := false
	var watch []uint16         // distinct addressed locations
	var docAcc []dmgref.Access // documented accesses of the tested instruction
	var preRef dmgref.CPU      // reference CPU state at the start of the tested instruction
	type obs struct{ vals []uint8 }
	var timeline []obs // timeline[k-1] = watched bytes of the real machine after cycle k (before re-stamping)
	window := ""

	stamp := func(k int) {
		for j, a := range watch {
			l.pokeBoth(a, stampAt(a, sbase, k, j))
		}
	}
	peek := func(a uint16) uint8 {
		if a >= 0xfe00 && a < 0xfea0 {
			o := l.m.PeekOAM()
			return o[a-0xfe00]
		}
		return l.m.Read(a)
	}
	arm := func() {
		// learn the addressed locations from a dry run of the reference
		dry := l.ref
		dry.Acc, dry.Fetched = nil, nil // a copy must not share the backing arrays with the reference proper
		db := &dryBus{l: l}
		dry.Bus = db
		preRef = dry
		dry.RunInstruction()
		docAcc = append([]dmgref.Access(nil), dry.Acc...)
		seen := map[uint16]bool{}
		for _, a := range docAcc {
			if !seen[a.Addr] {
				seen[a.Addr] = true
				watch = append(watch, a.Addr)
			}
		}
		if len(watch) > 0 {
			a := watch[0]
			switch {
			case a >= 0xff80:
				window = "hram"
			case a >= 0xfe00:
				window = "oam"
			case a >= 0xe000:
				window = "echo"
			case a >= 0xc000:
				window = "wram"
			default:
				window = "vram"
			}
		}
		armed = true
		stamp(0)
	}
	l.onCycle = func(l *lockstep) {
		if !armed {
			return
		}
		o := obs{}
		for _, a := range watch {
			o.vals = append(o.vals, peek(a))
		}
		timeline = append(timeline, o)
		if !l.m.CPU.VerifAtBoundary() {
			// no stamp after the last cycle: the values the instruction wrote stay visible
			stamp(l.k)
		}
	}
	done := false
	l.onInstr = func(l *lockstep, realCycles int, mism []lsMismatch) bool {
		for _, mm := range mism {
			if mm.kind == "undefined" {
				res.Harness = mm.detail
				return false
			}
		}
		if armed {
			done = true
			c03Judge(res, l, sbase, watch, docAcc, &preRef, func() [][]uint8 {
				var t [][]uint8
				for _, o := range timeline {
					t = append(t, o.vals)
				}
				return t
			}(), realCycles, mism)
			hist := "nohist"
			if sc.P("hist", 0) > 0 {
				hist = "hist"
			}
			mid := ""
			if l.irqMid {
				mid = "/irq-mid"
			}
			res.Sig(fmt.Sprintf("%s/%s/%s%s", l.opKey(), window, hist, mid))
			return false
		}
		if l.m.CPU.VerifGetRegs().PC == tpc && l.ref.Kind != "dispatch" {
			// the next instruction is the tested one (registers were just re-synchronised by the caller after we return,
			// so arm after the resync: do it lazily at the start of the next cycle)
			l.pendingArm = arm
		}
		return true
	}
	l.run(sc.Cycles)
	if !done && res.Harness == "" && res.Violation == nil {
		res.Harness = fmt.Sprintf("C03 scenario never reached its tested instruction at %04x", tpc)
	}
	return res
}

// c03Judge decides the timing verdict for the tested instruction.
func c03Judge(res *engine.Result, l *lockstep, sbase uint8, watch []uint16, doc []dmgref.Access, pre *dmgref.CPU, timeline [][]uint8, realCycles int, mism []lsMismatch) {
	res.Probe("stamped_instruction")
	idx := map[uint16]int{}
	for j, a := range watch {
		idx[a] = j
	}
	key := l.opKey()
	// ---- writes as seen on the bus (hook H4): every documented write performed, in its documented cycle
	for _, mm := range mism {
		switch mm.kind {
		case "buswrite-cycle":
			res.Fail(fmt.Sprintf("C03/write-cycle/%s", key), l.m.N, "%s", mm.detail)
			return
		case "buswrite-missing":
			res.Fail(fmt.Sprintf("C03/write-missing/%s", key), l.m.N, "%s", mm.detail)
			return
		case "busread-cycle":
			res.Fail(fmt.Sprintf("C03/read-cycle/%s", key), l.m.N, "%s", mm.detail)
			return
		case "busread":
			res.Fail(fmt.Sprintf("C03/read-access/%s", key), l.m.N, "%s", mm.detail)
			return
		}
	}
	// ---- writes: after which cycle did the location stop holding the stamp?
	for _, a := range doc {
		if !a.Write {
			continue
		}
		if a.Addr == 0xff0f {
			continue // an interrupt line rising changes IF too: the bus tap above has judged the write's cycle
		}
		if a.Addr < 0x8000 || (a.Addr >= 0xa000 && a.Addr < 0xc000) || (a.Addr >= 0xfea0 && a.Addr < 0xff00) {
			// not a location a stamp can be put into (the halt bug can turn an operand into such an address):
			// the bus tap above has judged the write's cycle
			continue
		}
		res.Probe("stamped_write")
		j := idx[a.Addr]
		realCycle := 0
		for k := 1; k <= len(timeline); k++ {
			if timeline[k-1][j] != stampAt(a.Addr, sbase, k-1, j) {
				realCycle = k
				break
			}
		}
		// two writes to the same address do not occur in any SM83 instruction
		if realCycle != 0 && realCycle != a.Cycle {
			res.Fail(fmt.Sprintf("C03/write-cycle/%s", key), l.m.N, "%s: location %04x was written in machine cycle %d of the instruction, documented cycle %d", l.describe(), a.Addr, realCycle, a.Cycle)
			return
		}
	}
	// ---- reads: only if the registers disagree, and only if moving a read explains it
	hasRegs := false
	for _, mm := range mism {
		if mm.kind == "regs" || mm.kind == "mem" || mm.kind == "if" || mm.kind == "buswrite" {
			hasRegs = true
		}
	}
	nReads := 0
	for _, a := range doc {
		if !a.Write {
			nReads++
			res.Probe("stamped_read")
		}
	}
	if !hasRegs || nReads == 0 {
		return
	}
	r := l.m.CPU.VerifGetRegs()
	peekReal := func(a uint16) uint8 {
		if a >= 0xfe00 && a < 0xfea0 {
			o := l.m.PeekOAM()
			return o[a-0xfe00]
		}
		return l.m.Read(a)
	}
	matches := func(c *dmgref.CPU) bool {
		if !(r.A == c.A && r.F == c.F && r.B == c.B && r.C == c.C && r.D == c.D && r.E == c.E && r.H == c.H && r.L == c.L && r.SP == c.SP && r.PC == c.PC) {
			return false
		}
		for _, a := range c.Acc {
			if a.Write && a.Addr == 0xff0f {
				if peekReal(a.Addr)&0x1f != a.Val&0x1f {
					return false
				}
				continue
			}
			if a.Write && peekReal(a.Addr) != a.Val {
				return false
			}
		}
		return true
	}
	// enumerate alternative cycles for each read (all combinations; at most two reads)
	var readIdx []int
	for i, a := range doc {
		if !a.Write {
			readIdx = append(readIdx, i)
		}
	}
	maxC := realCycles
	if maxC < 6 {
		maxC = 6
	}
	var try func(pos int, ov map[int]uint8, cyc []int) bool
	try = func(pos int, ov map[int]uint8, cyc []int) bool {
		if pos == len(readIdx) {
			same := true
			for i, ri := range readIdx {
				if cyc[i] != doc[ri].Cycle {
					same = false
				}
			}
			if same {
				return false
			}
			dry := *pre
			dry.Acc, dry.Fetched = nil, nil
			dry.Bus = &dryBus{l: l, override: ov}
			dry.RunInstruction()
			if matches(&dry) {
				res.Fail(fmt.Sprintf("C03/read-cycle/%s", key), l.m.N, "%s: the value consumed is the one present in machine cycle(s) %v of the instruction, documented cycle(s) %v", l.describe(), cyc, docCycles(doc, readIdx))
				return true
			}
			return false
		}
		ri := readIdx[pos]
		j := idx[doc[ri].Addr]
		for c := 1; c <= maxC; c++ {
			ov[ri] = stampAt(doc[ri].Addr, sbase, c-1, j)
			if try(pos+1, ov, append(cyc, c)) {
				return true
			}
		}
		delete(ov, ri)
		return false
	}
	try(0, map[int]uint8{}, nil)
}

func docCycles(doc []dmgref.Access, idx []int) []int {
	var out []int
	for _, i := range idx {
		out = append(out, doc[i].Cycle)
	}
	return out
}
