package props

import "verifsim/engine"

// C08 — cartridge ROM banking follows each controller's register semantics.
//
// Simulated dimension (thin, stated honestly): histories of control writes. There is no
// clock or fault in this property; it is stateful model conformance run through the
// simulator (CPU parked, scripted bus master, real mapper), with every ROM page carrying a
// unique pattern so the page seen through each window is identified exactly. The only real
// interleaving (DMA reading banked ROM while banks switch) is exercised in C16.
type c08 struct{}

func init() { engine.Register(c08{}) }

func (c08) PostGenerate(r *engine.Rand, sc *engine.Scenario) { chooseEnv(r, sc) }

func (c08) ID() string { return "C08" }

func (c08) Budget(tier string) int {
	if tier == "thorough" {
		return len(allCartConfigs) * 1200
	}
	return len(allCartConfigs) * 40
}

func (c08) Describe() engine.Info {
	return engine.Info{
		Rule: "scenario = cartridge configuration (ROM-only, MBC1 32K-2M, MBC2 32K-256K, MBC3 32K-2M, MBC5 32K-8M, x RAM sizes; enumerated by index) + history of 20..200 bus operations: control writes to 0000-7FFF at region edges, with A8 set/clear, values 0, 0A, small and random; occasional RAM writes; ROM reads. After every operation 9 ROM addresses (both windows, incl. the page signature bytes) are read back. " +
			"Oracle: reference controller model (MBC1 5+2 bit bank, mode-dependent low window, 0->1 remap; MBC2 4-bit bank via A8; MBC3 7-bit bank with 0->1; MBC5 9-bit bank, 0 allowed; all modulo the page count); ROM bytes never change. Signature = (controller, ROM size, RAM size, control region written, page in low window, RAM enabled)." +
			" DMA transfers from cartridge space run while the history goes on; every declared RAM size code; values with a single bit set or clear. Environment: CPU parked looping, halted or stopped. Configurations use every header type byte of a controller family (battery, rumble, timer variants), MBC3 images up to 8 MiB, one image in four repeats logo and header in every page, and one history in four looks at the windows only every 3rd..12th operation. One image in five carries distinct pages with equal CRC-32 and equal byte sums (differing in the signature bytes the checks read).",
		Assumptions:    []string{"MBC1 images above 2 MiB and MBC2 above 256 KiB are not real configurations and are not judged here (C11 covers their not crashing)", "exhaustive enumeration of single writes is a directed workload (class single), the deciding step is the seeded search"},
		RequiredProbes: []string{"page0_in_high_window", "dma_from_cartridge_space_in_flight"},
		RealComponents: realComponents, StubComponents: stubComponents,
		Sweeps: []string{"class single: every value 00-FF written to one address of every control region, from power-on (index-enumerated per configuration)"},
	}
}

func (c08) Generate(r *engine.Rand, index int, tier string) *engine.Scenario {
	sc := &engine.Scenario{}
	c := pickCartConfig(r, index, tier)
	round := index / len(allCartConfigs)
	if round%3 == 2 {
		// directed: all 256 values to each control region (two A8 variants), each followed by the probe reads
		sc.Class = "single"
		sc.Cart = engine.CartSpec{Kind: c.kind, Type: c.typ, RomCode: c.romCode, RamCode: c.ramCode, Program: "18fe", FillSeed: r.U64()}
		at := uint64(1)
		region := uint16(round/3%4) * 0x2000
		pre := uint16((round/3/4)%4) * 0x2000
		preV := r.Byte()
		for v := 0; v < 256; v++ {
			// a different register first, so that pairs are covered as well
			sc.Events = append(sc.Events, engine.Event{At: at, K: "bus_w", A: pre + uint16(r.Intn(0x2000)), V: preV, S: "ctl"})
			at++
			sc.Events = append(sc.Events, engine.Event{At: at, K: "bus_w", A: region + uint16(r.Intn(0x2000)), V: uint8(v), S: "ctl"})
			at++
		}
		sc.Cycles = at + 2
		return sc
	}
	sc.Class = "history"
	genCartHistory(r, sc, c, r.Range(20, 200), false)
	return sc
}

func (c08) Execute(sc *engine.Scenario) *engine.Result { return executeCart("C08", sc, "rom") }
