package props

import (
	"fmt"

	"verifsim/engine"
)

// C04 — interrupts are dispatched by priority exactly when enabled and requested.
//
// Simulated dimension (central): interrupt lines rising at every machine-cycle offset of
// short instruction sequences, including mid-instruction, around EI/DI/RETI and around
// guest writes to IF/IE. The real CPU runs inside the real frame loop; the reference
// interrupt controller + SM83 runs in lock step and both see every line rise at the same
// boundary.
type c04 struct{}

func init() { engine.Register(c04{}) }

func (c04) ID() string { return "C04" }

func (c04) Budget(tier string) int {
	if tier == "thorough" {
		return 2000000
	}
	return 2048 + 48000
}

func (c04) Describe() engine.Info {
	return engine.Info{
		Rule: "scenario = IE x IF x IME start state + sequence of 2..8 items over {EI, DI, RETI (prepared stack), NOP, INC r, LD r,n, LDH (IF),A, LDH (IE),A, PUSH/POP, CALL, LD (HL),r, ADD HL,rr, JR cc} followed by NOPs, with interrupt lines (all five) raised at sampled and boundary-adjacent cycle offsets; class sweep enumerates all 32x32x2 IE x IF x IME combinations at a boundary. Handlers are NOP; RETI. " +
			"Oracle: reference SM83 + interrupt controller in lock step: dispatch decision at every boundary, 5-cycle length, vector by priority, IME cleared, exactly that IF bit cleared, IE untouched, pushed return address, SP-2; EI delayed by one instruction, DI and RETI immediate. Signature = (what happened at the boundary, opcode before it, line rose mid-instruction, EI distance)." +
			" Class stack-on-ie: dispatch with SP=0000/0001 (the push lands on IE); class sequence-dma: OAM DMA transfers in flight while interrupts are dispatched; the pushes are also checked on the bus (hook H4). Sequences contain CB-prefixed register instructions (one instruction for the purposes of the EI delay).",
		Assumptions: []string{
			"if the pending set changes during the five dispatch cycles the vector may correspond to the set at the boundary or at the end of the dispatch (both accepted)",
			"HALT is excluded here (C05); HALT directly after EI is never generated (hardware corner outside the statement)",
			"instruction lengths other than the dispatch itself are C02's business",
		},
		RequiredProbes: []string{"dispatch", "irq_raised_mid_instruction", "dispatch_after_ei_delay", "boundary_pending_but_ime_clear", "reti", "if_written_by_guest", "dispatch_pushes_onto_ie"},
		RealComponents: realComponents, StubComponents: stubComponents,
		Sweeps: []string{"all 2048 IE x IF x IME combinations at a boundary (indices 0..2047)"},
	}
}

func (c04) Generate(r *engine.Rand, index int, tier string) *engine.Scenario {
	sc := &engine.Scenario{}
	g := &progGen{r: r, base: lsCodeWRAM}
	if r.Chance(1, 3) {
		g.base = lsCodeROM
	}
	g.emitStackSetup()
	if index < 2048 {
		// directed: one combination at a boundary, a few instructions around it
		sc.Class = "sweep"
		g.emit(0x00)
		g.emit(0x04) // INC B
		g.emit(0x00, 0x00, 0x00)
		g.finish()
		lsScenario(sc, r, g)
		sc.SetP("ie", int64(index&31)|int64(r.Byte()&0xe0))
		sc.SetP("if", int64(index>>5&31))
		sc.SetP("ime", int64(index>>10&1))
		sc.Cycles = 64
		return sc
	}
	if index%8 == 7 {
		// the dispatch pushes onto IE: SP = 0000 (high byte of the return address lands on FFFF) or
		// 0001 (low byte). The interrupt taken is still the highest-priority one that was enabled and
		// requested at the boundary. Handlers park (a return through a stack in ROM would go astray).
		sc.Class = "stack-on-ie"
		g.code = g.code[:0]
		g.emit16(0x31, uint16(r.Intn(2)))
		iff := r.Byte() & 0x1f
		if iff == 0 {
			iff = 1 << uint(r.Intn(5))
		}
		ie := iff&r.Byte() | r.Byte()&0xe0
		if ie&0x1f == 0 || r.Bool() {
			ie |= iff
		}
		g.emit(0x3e, ie, 0xe0, 0xff)
		g.emit(0x3e, iff|r.Byte()&0xe0, 0xe0, 0x0f)
		g.filler(r.Intn(4))
		g.emit(0xfb)
		g.filler(r.Range(1, 3))
		g.emit(0x00, 0x00, 0x00, 0x00)
		g.finish()
		lsScenario(sc, r, g)
		sc.Cart.Handler = "18fe"
		sc.Cycles = uint64(len(g.code))*2 + 80
		return sc
	}
	sc.Class = "sequence"
	g.noOAM = index%4 == 2
	n := r.Range(2, 8)
	lastEI := false
	for i := 0; i < n; i++ {
		if !lastEI && r.Chance(1, 12) {
			// HALT (not directly behind EI: that corner is documented in more than one way): the boundary
			// at which the CPU wakes is a boundary like any other - dispatch if the master enable is set,
			// otherwise no dispatch and IF untouched
			g.emit(0x76)
			g.emit(0x00)
			continue
		}
		lastEI = false
		switch k := r.Intn(16); {
		case k < 3:
			g.emit(0xfb) // EI
			lastEI = true
		case k < 5:
			g.emit(0xf3) // DI
		case k == 5:
			g.emitUnit(0xd9, false, false) // RETI with a prepared stack
		case k == 6:
			if r.Bool() {
				g.emit(0x00)
			} else {
				// a CB-prefixed instruction on registers (two bytes, one instruction: the one-instruction
				// delay of EI covers the whole of it)
				g.emit(0xcb, r.Byte()&0xf8|uint8(engine.Pick(r, []int{0, 1, 2, 3, 4, 5, 7})))
			}
		case k == 7:
			g.emit(engine.Pick(r, []uint8{0x04, 0x0c, 0x14, 0x1c, 0x24, 0x2c, 0x3c}))
		case k == 8:
			g.emit(0x3e, r.Byte()) // LD A,n
		case k == 9: // write IF
			g.emit(0x3e, r.Byte()&0x1f|r.Byte()&0xe0)
			g.emit(0xe0, 0x0f)
		case k == 10: // write IE
			g.emit(0x3e, r.Byte())
			g.emit(0xe0, 0xff)
		case k == 11:
			g.emitUnit(engine.Pick(r, []uint8{0xc5, 0xd5, 0xe5, 0xf5, 0xc1, 0xd1, 0xe1}), false, false)
		case k == 12:
			g.emitUnit(engine.Pick(r, []uint8{0xcd, 0xc4, 0xcc, 0xd4, 0xdc}), false, false)
		case k == 13:
			g.emitUnit(engine.Pick(r, []uint8{0x70, 0x71, 0x77, 0x36, 0x34, 0x35, 0x09, 0x19, 0x29}), false, false)
		default:
			g.emitUnit(engine.Pick(r, []uint8{0x18, 0x20, 0x28, 0x30, 0x38}), false, false)
		}
	}
	g.emit(0x00, 0x00, 0x00, 0x00)
	g.finish()
	lsScenario(sc, r, g)
	ie := r.Byte()
	if r.Chance(1, 3) {
		ie = 0xff
	}
	sc.SetP("ie", int64(ie))
	sc.SetP("if", int64(r.Byte()&0x1f)&int64(r.Byte()))
	sc.SetP("ime", int64(r.Intn(2)))
	total := len(g.code)*2 + 8
	for i, k := 0, r.Range(0, 4); i < k; i++ {
		sc.Events = append(sc.Events, engine.Event{At: uint64(r.Intn(total)), K: "irq", A: uint16(r.Intn(5))})
	}
	if index%4 == 2 {
		// OAM DMA transfers in flight while interrupts are dispatched (the pushes go to the stack in work
		// RAM whatever the DMA engine is doing)
		sc.Class = "sequence-dma"
		for at := uint64(r.Intn(12)); at < uint64(total)*2; at += uint64(r.Range(30, 200)) {
			sc.Events = append(sc.Events, engine.Event{At: at, K: "dma", V: engine.Pick(r, []uint8{0x00, 0x40, 0x80, 0xc0, 0xd0, 0xe0})})
		}
	}
	sortEvents(sc.Events)
	sc.Cycles = uint64(total)*2 + 80
	return sc
}

func (c04) Execute(sc *engine.Scenario) *engine.Result {
	res := &engine.Result{}
	l := newLockstep(sc, res)
	if l == nil {
		return res
	}
	sinceEI := 99
	prevKey := "start"
	vectors := map[uint16]bool{0x40: true, 0x48: true, 0x50: true, 0x58: true, 0x60: true}
	l.onInstr = func(l *lockstep, realCycles int, mism []lsMismatch) bool {
		key := l.opKey()
		kind := l.ref.Kind
		r := l.m.CPU.VerifGetRegs()
		var first *lsMismatch
		for i := range mism {
			mm := &mism[i]
			switch mm.kind {
			case "undefined":
				res.Harness = mm.detail
				return false
			case "cycles", "buswrite-cycle", "busread-cycle", "busread":
				if kind != "dispatch" {
					continue // instruction lengths are C02's, access cycles C03's
				}
			case "buswrite", "buswrite-missing":
				if kind != "dispatch" {
					continue // the effect of ordinary instructions on memory is C01's
				}
			case "flags-low", "stuck", "halted":
				continue
			}
			if first == nil {
				first = mm
			}
		}
		if first != nil && l.acceptLateVector(realCycles) {
			first = nil
		}
		if first != nil {
			cls := "C04/" + first.kind
			switch {
			case kind == "dispatch" && !vectors[r.PC]:
				cls = "C04/dispatch-missing"
				if sinceEI == 2 {
					cls = "C04/dispatch-missing-after-ei-delay"
				}
			case kind != "dispatch" && vectors[r.PC] && r.SP == l.pre.SP-2:
				cls = "C04/dispatch-unexpected"
				if sinceEI == 1 {
					cls = "C04/dispatch-directly-after-ei"
				}
			case kind == "dispatch":
				cls = "C04/dispatch-" + first.kind
			default:
				cls = "C04/" + first.kind + "/" + key
			}
			res.Fail(cls, l.m.N, "%s", first.detail)
			return false
		}
		// coverage
		what := kind
		if kind == "dispatch" {
			res.Probe("dispatch")
			if l.pre.SP < 2 {
				res.Probe("dispatch_pushes_onto_ie")
			}
			if sinceEI == 2 {
				res.Probe("dispatch_after_ei_delay")
			}
		} else if l.ieReg&l.ifReg&0x1f != 0 && !l.ref.IME {
			res.Probe("boundary_pending_but_ime_clear")
		}
		if kind == "instr" {
			switch key {
			case "fb":
				sinceEI = 0
			case "d9":
				res.Probe("reti")
			case "e0":
				if l.Read(l.ref.OpPC+1) == 0x0f {
					res.Probe("if_written_by_guest")
				}
			}
		}
		mid := ""
		if l.irqMid {
			mid = "/irq-mid"
		}
		eid := ""
		if sinceEI <= 2 {
			eid = fmt.Sprintf("/ei+%d", sinceEI)
		}
		res.Sig(fmt.Sprintf("%s/after-%s%s%s/pend=%v/ime=%v", what, prevKey, mid, eid, l.ieReg&l.ifReg&0x1f != 0, l.ref.IME))
		sinceEI++
		prevKey = key
		if key == "18" && l.ref.PC == l.ref.OpPC && l.ei >= len(l.events) && !(l.ref.IME && l.ieReg&l.ifReg&0x1f != 0) && l.ref.EIDelay == 0 {
			return false
		}
		return true
	}
	l.run(sc.Cycles)
	return res
}
