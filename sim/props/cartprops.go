package props

import (
	"fmt"

	"verifsim/cart"
	"verifsim/dmgref"
	"verifsim/engine"
	"verifsim/machine"
)

// Shared scenario generator and executor for the cartridge properties C08 (ROM banking)
// and C09 (cartridge RAM): histories of bus operations on the cartridge windows with the
// CPU parked, checked operation by operation against the reference controller models.

type cartConfig struct {
	kind    string
	typ     uint8
	romCode uint8
	ramCode uint8
}

// real configurations: controller x every ROM size its register width can address x RAM sizes
func cartConfigs() []cartConfig {
	var out []cartConfig
	out = append(out, cartConfig{"rom", 0x00, 0, 0})
	// no controller, but a header that declares more ROM than the 32 KiB the bus reaches, or RAM it has not got
	for rc := uint8(1); rc <= 3; rc++ {
		out = append(out, cartConfig{"rom", 0x00, rc, 0})
	}
	out = append(out, cartConfig{"rom", 0x00, 0, 2}, cartConfig{"rom", 0x00, 1, 3})
	for rc := uint8(0); rc <= 6; rc++ {
		for _, ram := range []uint8{0, 1, 2, 3, 4, 5} {
			t := uint8(0x03)
			if ram == 0 {
				t = 0x01
			}
			out = append(out, cartConfig{"mbc1", t, rc, ram})
		}
	}
	for rc := uint8(0); rc <= 3; rc++ {
		out = append(out, cartConfig{"mbc2", 0x06, rc, 0})
	}
	for rc := uint8(0); rc <= 8; rc++ { // 4 and 8 MiB images too: the 7-bit bank register reaches their first 128 pages
		for _, ram := range []uint8{0, 1, 2, 3, 4, 5} {
			if rc > 6 && ram != 0 && ram != 3 && ram != 5 {
				continue
			}
			t := uint8(0x13)
			if ram == 0 {
				t = 0x11
			}
			if rc%2 == 0 {
				t = 0x10
				if ram == 0 {
					t = 0x0f
				}
			}
			out = append(out, cartConfig{"mbc3", t, rc, ram})
		}
	}
	for rc := uint8(0); rc <= 8; rc++ {
		for _, ram := range []uint8{0, 2, 3, 4, 5} {
			t := uint8(0x1b)
			if ram == 0 {
				t = 0x19
			}
			out = append(out, cartConfig{"mbc5", t, rc, ram})
		}
	}
	return out
}

var allCartConfigs = cartConfigs()

func pickCartConfig(r *engine.Rand, index int, tier string) cartConfig {
	cfgs := allCartConfigs
	c := cfgs[index%len(cfgs)]
	// very large images are expensive: in quick runs take them only every few rounds
	if tier != "thorough" && c.romCode >= 7 && (index/len(cfgs))%4 != 0 {
		c.romCode = uint8(r.Intn(4))
	}
	return c
}

// genCartHistory generates a history of cartridge bus operations. ramFocus biases towards
// RAM enable/bank/read/write operations.
func genCartHistory(r *engine.Rand, sc *engine.Scenario, c cartConfig, n int, ramFocus bool) {
	sc.Cart = engine.CartSpec{Kind: c.kind, Type: c.typ, RomCode: c.romCode, RamCode: c.ramCode, Program: "18fe", FillSeed: r.U64()}
	// every header type byte of the controller family (battery, rumble, timer variants)
	switch c.kind {
	case "mbc1":
		if c.ramCode != 0 {
			sc.Cart.Type = engine.Pick(r, []uint8{0x02, 0x03})
		}
	case "mbc2":
		sc.Cart.Type = engine.Pick(r, []uint8{0x05, 0x06})
	case "mbc3":
		if c.ramCode != 0 {
			sc.Cart.Type = engine.Pick(r, []uint8{0x10, 0x12, 0x13})
		} else {
			sc.Cart.Type = engine.Pick(r, []uint8{0x0f, 0x11})
		}
	case "mbc5":
		if c.ramCode != 0 {
			sc.Cart.Type = engine.Pick(r, []uint8{0x1a, 0x1b, 0x1d, 0x1e})
		} else {
			sc.Cart.Type = engine.Pick(r, []uint8{0x19, 0x1c})
		}
	}
	if c.kind != "rom" && r.Chance(1, 4) {
		sc.Cart.HeaderEveryPage = true
	}
	if c.kind != "rom" && r.Chance(1, 5) {
		sc.Cart.CollidingPages = true
	}
	if r.Chance(1, 4) {
		// the window is not looked at after every operation: several operations go by unobserved
		sc.SetP("sparse_probe", int64(r.Range(3, 12)))
	}
	at := uint64(1)
	ctl := func() uint16 {
		// control addresses: region starts, ends, A8 set/clear, random
		switch r.Intn(6) {
		case 0:
			return uint16(r.Intn(4)) * 0x2000
		case 1:
			return uint16(r.Intn(4))*0x2000 + 0x1fff
		case 2:
			return uint16(r.Intn(0x4000)) | 0x0100
		case 3:
			return uint16(r.Intn(0x4000)) &^ 0x0100
		}
		return uint16(r.Intn(0x8000))
	}
	val := func() uint8 {
		switch r.Intn(8) {
		case 0:
			return 0x0a
		case 1:
			return r.Byte()&0xf0 | 0x0a
		case 2:
			return uint8(r.Intn(4))
		case 3:
			return 0
		case 4:
			return uint8(r.Intn(16)) // every select value of a 4-bit register (MBC3: RAM banks, clock registers, unmapped 0D-0F)
		case 5:
			// one bit set, or all but one: the edges of every register width (bit 7 of a 7-bit bank, ...)
			v := uint8(1) << uint(r.Intn(8))
			if r.Bool() {
				v = ^v
			}
			return v
		}
		return r.Byte()
	}
	ramAddr := func() uint16 {
		switch r.Intn(5) {
		case 0:
			return 0xa000 + uint16(r.Intn(4))
		case 1:
			return 0xbfff - uint16(r.Intn(4))
		case 2:
			return 0xa000 + uint16(r.Intn(0x200)) + 0x200*uint16(r.Intn(16))
		}
		return 0xa000 + uint16(r.Intn(0x2000))
	}
	dmaEvery := 0
	if r.Chance(1, 3) {
		// the OAM DMA engine reads from the cartridge (or elsewhere) while the history goes on: the
		// controller registers and the RAM are the CPU's whatever the DMA engine is doing
		dmaEvery = r.Range(2, 12)
	}
	for i := 0; i < n; i++ {
		at += uint64(r.Range(1, 4))
		if dmaEvery > 0 && i%dmaEvery == 0 {
			pg := uint8(r.Intn(0x80))
			switch r.Intn(4) {
			case 0:
				pg = uint8(0xa0 + r.Intn(0x20))
			case 1:
				pg = uint8(0xc0 + r.Intn(0x20))
			}
			sc.Events = append(sc.Events, engine.Event{At: at, K: "bus_w", A: 0xff46, V: pg, S: "dma"})
			at += uint64(r.Range(1, 3))
		}
		k := r.Intn(10)
		if ramFocus {
			switch {
			case k < 2:
				sc.Events = append(sc.Events, engine.Event{At: at, K: "bus_w", A: ctl(), V: val(), S: "ctl"})
			case k < 3:
				sc.Events = append(sc.Events, engine.Event{At: at, K: "bus_w", A: uint16(r.Intn(0x2000)) &^ 0x0100, V: []uint8{0x0a, 0x0a, 0x00, 0x1a, 0x0b}[r.Intn(5)], S: "ctl"})
			case k < 7:
				sc.Events = append(sc.Events, engine.Event{At: at, K: "bus_w", A: ramAddr(), V: r.Byte(), S: "ram"})
			default:
				sc.Events = append(sc.Events, engine.Event{At: at, K: "bus_r", A: ramAddr(), S: "ram"})
			}
		} else {
			switch {
			case k < 7:
				sc.Events = append(sc.Events, engine.Event{At: at, K: "bus_w", A: ctl(), V: val(), S: "ctl"})
			case k < 8:
				sc.Events = append(sc.Events, engine.Event{At: at, K: "bus_w", A: ramAddr(), V: r.Byte(), S: "ram"})
			default:
				sc.Events = append(sc.Events, engine.Event{At: at, K: "bus_r", A: uint16(r.Intn(0x8000)), S: "rom"})
			}
		}
	}
	sc.Cycles = at + 4
}

// cartProbeAddrs are the addresses read back after every operation.
func cartProbeAddrs(n uint64) []uint16 {
	return []uint16{
		0x0000 + uint16(n*13%0x100), 0x3ff0, 0x3ff1, 0x0150 + uint16(n*7%0x3e00),
		0x4000 + uint16(n*11%0x100), 0x7ff0, 0x7ff1, 0x7ff2, 0x4000 + uint16(n*17%0x3ff0),
		0xa000 + uint16(n*29%0x2000), 0xa000, 0xbfff, 0xa1ff + uint16(n%2),
	}
}

// executeCart runs a cartridge history. focus: "rom" (C08) or "ram" (C09).
func executeCart(id string, sc *engine.Scenario, focus string) *engine.Result {
	res := &engine.Result{}
	img, err := cartBuild(sc.Cart)
	if err != nil {
		res.Harness = err.Error()
		return res
	}
	m, pi := machine.New(img, false, machine.Options{})
	if pi != nil {
		res.Harness = fmt.Sprintf("construction panicked for a real cartridge configuration (type %02x rom %d ram %d): %s", sc.Cart.Type, sc.Cart.RomCode, sc.Cart.RamCode, pi.Value)
		return res
	}
	m.Write(0xff40, 0)
	park(sc, m, res)
	ct := dmgref.NewCart(img)
	kind := ct.Kind
	dg := engine.NewDigest()
	lastCtl := "none"
	fail := func(cls string, at uint64, format string, a ...interface{}) {
		res.Fail(fmt.Sprintf("%s/%s/%s", id, kind, cls), at, format, a...)
	}
	compare := func(a uint16, got uint8, n uint64) bool {
		want, known := ct.Read(a)
		dg.Byte(got)
		isRom := a < 0x8000
		if (focus == "rom") != isRom {
			return true
		}
		if !known {
			// MBC2 cell never written: only the upper nibble is determined; MBC3 clock
			// register select 0D-0F: undetermined
			if kind == "mbc2" && got&0xf0 != 0xf0 {
				fail("ram-upper-nibble", n, "read of %04x returned %02x: the upper four bits of MBC2 RAM must read 1 (cell never written)", a, got)
				return false
			}
			return true
		}
		if got != want {
			if isRom {
				half := "low"
				page := ct.RomPageLow()
				if a >= 0x4000 {
					half, page = "high", ct.RomPageHigh()
				}
				fail("rom-"+half+"-window", n, "read of %04x returned %02x, expected %02x = page %d of %d (after control write: %s)", a, got, want, page, ct.RomBanks, lastCtl)
			} else {
				what := "ram-read"
				switch {
				case !ct.RamOn:
					what = "ram-disabled-read"
				case kind == "rom":
					what = "no-ram-read"
				}
				fail(what, n, "read of %04x returned %02x, expected %02x (RAM enabled=%v, bank %d of %d; after control write: %s)", a, got, want, ct.RamOn, ct.RamBankSel(), ct.RamBanks, lastCtl)
			}
			return false
		}
		return true
	}
	probe := func(n uint64) bool {
		for _, a := range cartProbeAddrs(n) {
			if (focus == "rom") != (a < 0x8000) {
				continue
			}
			if kind == "mbc3" && a >= 0xa000 && ct.RamOn && ct.RamB >= 8 {
				continue // clock registers: C10
			}
			if !compare(a, m.Read(a), n) {
				return false
			}
		}
		return true
	}
	dumpOK := func(when string) bool {
		got := m.Map.DumpRAM()
		want := ct.Dump()
		if len(got) != len(want) {
			fail("dump-size", m.N, "RAM dump (%s) has %d bytes, expected %d (%d banks)", when, len(got), len(want), ct.RamBanks)
			return false
		}
		for i := range got {
			g, w := got[i], want[i]
			if kind == "mbc2" {
				if !ct.Written[0][i] {
					continue
				}
				g, w = g&0x0f, w&0x0f
			}
			if g != w {
				fail("dump-content", m.N, "RAM dump (%s) byte %d (bank %d offset %04x) is %02x, stored %02x", when, i, i/0x2000, i%0x2000, got[i], want[i])
				return false
			}
		}
		return true
	}
	ei := 0
	sparse := int(sc.P("sparse_probe", 0))
	ok := probe(0)
	for m.N < sc.Cycles && ok {
		for ei < len(sc.Events) && sc.Events[ei].At <= m.N && ok {
			ev := sc.Events[ei]
			ei++
			rtcSel := kind == "mbc3" && ct.RamOn && ct.RamB >= 8
			switch ev.K {
			case "bus_w":
				if ev.A == 0xff46 {
					m.Write(ev.A, ev.V)
					res.Fault("dma_start")
					res.Probe("dma_from_cartridge_space_in_flight")
					continue
				}
				if ev.A >= 0xa000 && rtcSel {
					// not a RAM access (the clock registers are C10's business), but it is performed:
					// whatever it does, it must leave every RAM bank as it was
					res.Probe("window_write_while_clock_register_selected")
				}
				ct.Write(ev.A, ev.V)
				m.Write(ev.A, ev.V)
				if ev.A < 0x8000 {
					lastCtl = fmt.Sprintf("%04x<-%02x", ev.A, ev.V)
					res.Fault("control_write")
					res.Sig(fmt.Sprintf("%s/rom%d/ram%d/ctl-%x/low=%d/ramon=%v", kind, sc.Cart.RomCode, sc.Cart.RamCode, ev.A>>13, ct.RomPageLow(), ct.RamOn))
				} else {
					res.Fault("ram_write")
					if ct.RamOn {
						res.Probe("ram_write_enabled")
					} else {
						res.Probe("ram_write_disabled")
					}
				}
			case "bus_r":
				if ev.A >= 0xa000 && rtcSel {
					continue
				}
				got := m.Read(ev.A)
				res.Fault("read")
				if !compare(ev.A, got, m.N) {
					ok = false
				}
			}
			if ok && (sparse == 0 || ei%sparse == 0) {
				ok = probe(m.N)
			}
			if ok && focus == "ram" && kind != "rom" && ei%37 == 0 {
				// the RAM dump may be asked for at any time (and more than once): it shows the stored bytes
				if !dumpOK("mid-history") {
					ok = false
				}
				res.Probe("dump_compared_mid_history")
			}
			if ct.RomPageHigh() == 0 {
				res.Probe("page0_in_high_window")
			}
			if ct.RamBanks > 1 && ct.RamBankSel() > 0 && ct.RamOn {
				res.Probe("ram_bank_nonzero")
			}
		}
		if !ok {
			break
		}
		next := sc.Cycles
		if ei < len(sc.Events) && sc.Events[ei].At < next {
			next = sc.Events[ei].At
		}
		if next <= m.N {
			next = m.N + 1
		}
		m.RunCycles(next - m.N)
	}
	if ok && focus == "ram" {
		// the cartridge RAM dump shows exactly the stored bytes
		if kind != "rom" {
			dumpOK("end")
		} else if got := m.Map.DumpRAM(); len(got) != 0 {
			fail("dump-size", m.N, "ROM-only cartridge dumps %d bytes of RAM", len(got))
		}
		res.Probe("dump_compared")
	}
	res.Cycles = m.N
	res.Digest = uint64(dg)
	return res
}

var _ = cart.RomBanks
