package props

import (
	"fmt"

	"verifsim/engine"
)

// C21 — channel waveforms run at the documented frequencies.
//
// Simulated dimension: the simulated clock only (stated honestly: the frequencies are
// generated input; the simulator contributes exact period measurement over long runs of the
// real frame loop, and interference: the other channels are triggered and retriggered while
// one is measured). Waveform positions are read through the verif accessor after every
// machine cycle.
type c21 struct{}

func init() { engine.Register(c21{}) }

func (c21) PostGenerate(r *engine.Rand, sc *engine.Scenario) {
	chooseEnv(r, sc)
	if r.Chance(1, 3) {
		addOtherUnitEvents(r, sc, exclSound)
	}
}

func (c21) ID() string { return "C21" }

func (c21) Budget(tier string) int {
	if tier == "thorough" {
		return 2048*3 + 224*3 + 400
	}
	return 64*3 + 64 + 48
}

func (c21) Describe() engine.Info {
	return engine.Info{
		Rule: "channel 1/2: duty steps counted over a window of K whole periods of 4x(2048-f) clocks must be exactly K (K chosen so that the window is about 20,000 machine cycles); channel 3: wave positions advanced over a window of K periods of 2x(2048-f) clocks (K even); channel 4: machine cycles between changes of the shift register = d(r)x2^s / 4 for every NR43 value with s<=13, and the output bit sequence at r=0,s=0 has period 32767 (15-bit) / 127 (7-bit) and no shorter period. quick: 64 frequencies per channel incl. 0, 1, 2046, 2047 and 64 NR43 values; thorough: all. While a channel is measured the other channels are triggered at random cycles. Signature = (channel, frequency or NR43 bucket)." +
			" Class sweep: channel 1 while its sweep unit rewrites the frequency; fresh: channel 4 triggered on a machine as constructed (no power cycle, NR43 never written). Class ch4-retuned: triggered under another NR43 (shift codes 14/15 included), NR43 rewritten without trigger: clocked at the new rate from the second change on, first change within a second. One note in eight starts within three cycles of a whole second after construction. One note in four is restarted at every distance 1..300 from its start (first step not before half a period); class ch4-retuned may visit the 7-bit mode for one clock while the low seven bits are all alike.",
		Assumptions:    []string{"waveform positions are read through the verif accessor (duty index, wave position, shift register)", "the first period after a trigger is not judged (the reload delay after a trigger is not part of the statement)"},
		RequiredProbes: []string{"fresh_machine_noise", "sweep_changed_the_frequency", "retuned_without_trigger", "square_periods", "wave_periods", "noise_periods", "noise_retuned_without_trigger", "note_started_on_a_second_boundary", "restarted_at_every_distance", "lfsr15_period", "lfsr7_period", "other_channel_triggered_during_measurement"},
		RealComponents: realComponents, StubComponents: stubComponents,
	}
}

func (c21) Generate(r *engine.Rand, index int, tier string) *engine.Scenario {
	sc := &engine.Scenario{Cart: simpleRom()}
	thorough := tier == "thorough"
	nf := 64
	if thorough {
		nf = 2048
	}
	freq := func(i int) int {
		if thorough {
			return i
		}
		special := []int{0, 1, 2, 255, 256, 1023, 1024, 1792, 2040, 2044, 2045, 2046, 2047}
		if i < len(special) {
			return special[i]
		}
		return r.Intn(2048)
	}
	nNoise := 64
	if thorough {
		nNoise = 224
	}
	switch {
	case index < nf*3:
		ch := index / nf
		sc.Class = fmt.Sprintf("ch%d", ch+1)
		sc.SetP("ch", int64(ch+1))
		sc.SetP("f", int64(freq(index%nf)))
		if index%4 == 1 {
			sc.SetP("restarts", 1)
		}
		if index%8 == 3 {
			// the note starts a whole number of seconds after the machine was constructed, give or take a
			// few machine cycles (counters that wrap once a second)
			sc.SetP("start_at", int64(r.Range(1, 2))*1048576+int64(r.Range(-3, 3)))
		}
		if r.Bool() {
			// the channel is triggered at another frequency first and retuned while playing
			// (frequency registers rewritten without the trigger bit)
			sc.SetP("f0", int64(r.Intn(2048)))
			sc.SetP("retune_after", int64(r.Range(1, 3000)))
		}
	case index < nf*3+nNoise*([]int{1, 3}[map[bool]int{false: 0, true: 1}[thorough]]):
		k := index - nf*3
		sc.Class = "ch4"
		sc.SetP("ch", 4)
		// NR43 values with s <= 13: s in 0..13, width bit, r in 0..7 = 224 values
		v := k % 224
		if !thorough {
			v = (k * 37) % 224
		}
		s, w, rr := v/16, v/8%2, v%8
		sc.SetP("nr43", int64(s<<4|w<<3|rr))
		if k%16 == 5 {
			sc.SetP("fresh", 1)
		} else if k%4 == 2 {
			// the channel is triggered under another NR43 value first (any value, the shift codes 14 and 15
			// included) and NR43 is then rewritten without a trigger: after the interval in progress, and
			// within a second at the latest, the generator is clocked at the rate of the value in force
			sc.Class = "ch4-retuned"
			p0 := r.Byte()
			if r.Bool() {
				p0 = uint8(14+r.Intn(2))<<4 | r.Byte()&0x0f
				if r.Chance(2, 3) {
					p0 &^= 7 // the shortest of those intervals
				}
			}
			sc.SetP("nr43_before", int64(p0))
			sc.SetP("retune_after", int64(r.Range(1, 5000)))
			if r.Bool() {
				sc.SetP("short_visit", 1)
				sc.SetP("nr43_before", int64(r.Intn(6)<<4|r.Intn(8))) // a fast 15-bit generator
				sc.SetP("nr43", sc.P("nr43", 0)&^0x08)
			}
		}
	default:
		if index%4 >= 2 {
			// channel 1 while its sweep unit rewrites the frequency (subtraction mode: the frequency
			// shrinks by f>>s at every sweep clock until f>>s is 0): the waveform follows the frequency
			sc.Class = "sweep"
			sc.SetP("ch", 6)
			sc.SetP("f", int64(r.Range(64, 2047)))
			sc.SetP("shift", int64(r.Range(1, 3)))
			sc.SetP("period", int64(r.Range(1, 3)))
			break
		}
		sc.Class = "lfsr"
		sc.SetP("ch", 5)
		sc.SetP("nr43", int64((index%2)<<3))
	}
	sc.SetP("dseed", int64(r.U64()>>1))
	sc.Cycles = 1
	return sc
}

func (c21) Execute(sc *engine.Scenario) *engine.Result {
	res := &engine.Result{}
	m := build(sc, res)
	if m == nil {
		return res
	}
	m.Write(0xff40, 0)
	park(sc, m, res)
	r := engine.NewRand(uint64(sc.P("dseed", 1)))
	ch := int(sc.P("ch", 1))
	fresh := sc.P("fresh", 0) != 0
	if !fresh {
		m.Write(0xff26, 0x00)
		m.Write(0xff26, 0x80)
	}
	m.Write(0xff25, 0xff)
	m.Write(0xff24, 0x77)
	// disturbance: trigger some other channel at random cycles during the measurement
	disturb := func() {
		if !r.Chance(1, 600) {
			return
		}
		others := []uint16{0xff14, 0xff19, 0xff1e, 0xff23}
		o := r.Intn(4)
		if o == ch-1 || (ch == 5 && o == 3) {
			return
		}
		m.Write([]uint16{0xff12, 0xff17, 0xff1a, 0xff21}[o], 0xf0)
		m.Write(others[o], 0x80|r.Byte()&7)
		res.Probe("other_channel_triggered_during_measurement")
		res.Fault("other_channel_trigger")
	}
	if at := uint64(sc.P("start_at", 0)); at > m.N+8 {
		m.RunCycles(at - 8 - m.N) // the register writes below take no emulated time: the trigger lands at `at` - 8 + few
		for m.N < at {
			m.RunCycles(1)
		}
		res.Probe("note_started_on_a_second_boundary")
	}
	switch ch {
	case 1, 2, 3:
		f := int(sc.P("f", 0))
		var periodClocks int
		pos := func() int {
			w := m.APU.VerifWave()
			switch ch {
			case 1:
				return int(w.Duty1)
			case 2:
				return int(w.Duty2)
			}
			return int(w.Pos3)
		}
		mod := 8
		if ch == 3 {
			mod = 32
		}
		lo, hi := uint16(0xff13), uint16(0xff14)
		switch ch {
		case 1:
			m.Write(0xff12, 0xf0)
		case 2:
			m.Write(0xff17, 0xf0)
			lo, hi = 0xff18, 0xff19
		default:
			m.Write(0xff1a, 0x80)
			m.Write(0xff1c, 0x20)
			lo, hi = 0xff1d, 0xff1e
		}
		per := func(f int) int {
			if ch == 3 {
				return 2 * (2048 - f)
			}
			return 4 * (2048 - f)
		}
		if f0 := int(sc.P("f0", -1)); f0 >= 0 {
			// triggered at another frequency, then retuned while playing: the frequency registers
			// are rewritten without the trigger bit; the period in progress ends at the old rate
			m.Write(lo, uint8(f0))
			m.Write(hi, 0x80|uint8(f0>>8))
			m.RunCycles(uint64(sc.P("retune_after", 1)))
			m.Write(lo, uint8(f))
			m.Write(hi, uint8(f>>8))
			m.RunCycles(uint64(per(f0)/4 + 2))
			res.Probe("retuned_without_trigger")
			res.Fault("retune")
		} else {
			m.Write(lo, uint8(f))
			m.Write(hi, 0x80|uint8(f>>8))
		}
		periodClocks = per(f)
		if sc.P("restarts", 0) != 0 && periodClocks >= 64 {
			// the playing channel is restarted (NRx4 with the trigger bit, same frequency) at every distance
			// from the previous start: the waveform begins again and its first step is not due before half a
			// period has gone by (the exact delay of the first step is not judged)
			for d := 1; d <= periodClocks/4+2 && d <= 300; d++ {
				m.RunCycles(uint64(d))
				m.Write(hi, 0x80|uint8(f>>8))
				p0 := pos()
				n := 0
				for pos() == p0 && n < periodClocks/4+8 {
					m.RunCycles(1)
					n++
				}
				if n < periodClocks/8 {
					res.Fail(fmt.Sprintf("C21/ch%d/first-step-after-restart", ch), m.N, "frequency %d: restarted %d machine cycles after the previous start, the waveform stepped %d machine cycles later (one step per %d clocks)", f, d, n, periodClocks)
					return res
				}
			}
			res.Probe("restarted_at_every_distance")
		}
		// skip the first period, then align to a step
		m.RunCycles(uint64(periodClocks/4 + 2))
		start := pos()
		guard := 0
		for pos() == start && guard < periodClocks/4+4 {
			m.RunCycles(1)
			guard++
		}
		if pos() == start {
			res.Fail(fmt.Sprintf("C21/ch%d/never-steps", ch), m.N, "frequency %d: the waveform position did not move within %d machine cycles (period %d clocks)", f, guard, periodClocks)
			return res
		}
		// measure K whole periods; the window must be a whole number of machine cycles
		k := 80000 / periodClocks
		if k < 2 {
			k = 2
		}
		k += k % 2
		window := k * periodClocks / 4
		steps := 0
		last := pos()
		m.OnCycle = func() {
			p := pos()
			steps += (p - last + mod) % mod
			last = p
			disturb()
		}
		m.RunCycles(uint64(window))
		m.OnCycle = nil
		res.Probe(map[int]string{1: "square_periods", 2: "square_periods", 3: "wave_periods"}[ch])
		if steps != k {
			res.Fail(fmt.Sprintf("C21/ch%d/period", ch), m.N, "frequency %d: %d waveform steps in %d machine cycles, expected %d (one step per %d clocks)", f, steps, window, k, periodClocks)
		}
		res.Sig(fmt.Sprintf("ch%d/f=%d", ch, f/64))
	case 4:
		nr43 := uint8(sc.P("nr43", 0))
		if fresh {
			// a machine as constructed (sound on, no power cycle, NR43 never written): the generator runs
			// at the rate of the NR43 value the register reads back
			nr43 = m.Read(0xff22)
			res.Probe("fresh_machine_noise")
			if nr43>>4 > 7 {
				res.Sig("ch4/fresh/slow")
				return res
			}
		}
		s, rr := int(nr43>>4), int(nr43&7)
		d := 8
		if rr > 0 {
			d = 16 * rr
		}
		periodClocks := d << uint(s)
		m.Write(0xff21, 0xf0)
		lf := func() uint16 { return m.APU.VerifWave().LFSR }
		guard := periodClocks/4 + 8
		if p0 := sc.P("nr43_before", -1); p0 >= 0 && !fresh {
			// the width bit stays as it is across the rewrite: going over to the 7-bit sequence in mid-run
			// can legitimately freeze the register (its low seven bits all alike), which no statement rules out
			p0 = p0&^0x08 | int64(nr43&0x08)
			m.Write(0xff22, uint8(p0))
			m.Write(0xff23, 0x80)
			m.RunCycles(uint64(sc.P("retune_after", 1)))
			if sc.P("short_visit", 0) != 0 && p0&0x08 == 0 && p0>>4 < 6 {
				// a visit to the 7-bit mode while the low seven bits of the register are all alike (waited for),
				// one clock long, and back: afterwards the 15-bit generator is clocked as ever
				for n := 0; n < 400000 && lf()&0x7f != 0 && lf()&0x7f != 0x7f; n++ {
					m.RunCycles(1)
				}
				m.Write(0xff22, uint8(p0)|0x08)
				// one clock of the old rate, two at most: the upper bits have not been shifted out yet, so the
				// 15-bit generator has something to go on with (a longer stay legitimately empties the register)
				d0 := 8
				if p0&7 > 0 {
					d0 = 16 * int(p0&7)
				}
				m.RunCycles(uint64(d0<<uint(p0>>4))/4 + 1)
				if v := lf(); v == 0 || v == 0x7fff {
					// the visit has emptied (or filled) the register: frozen for good, legitimately
					res.Sig("ch4/short-visit-froze-the-register")
					return res
				}
				res.Probe("short_mode_visited_in_a_degenerate_state")
			}
			m.Write(0xff22, nr43)
			res.Probe("noise_retuned_without_trigger")
			res.Fault("retune")
			// let the interval in progress run out: the first change after the rewrite may come after the
			// old interval; from the second change on the new rate applies
			last := lf()
			for n := 0; lf() == last; n++ {
				if n > 1048576 {
					res.Fail("C21/ch4/never-clocks-after-retune", m.N, "NR43 rewritten from %02x to %02x without a trigger: the shift register has not been clocked for a second", p0, nr43)
					return res
				}
				m.RunCycles(1)
			}
		} else {
			if !fresh {
				m.Write(0xff22, nr43)
			}
			m.Write(0xff23, 0x80)
		}
		// wait for the first change, then measure the gaps between changes
		last := lf()
		for lf() == last && guard > 0 {
			m.RunCycles(1)
			guard--
		}
		if lf() == last {
			res.Fail("C21/ch4/never-clocks", m.N, "NR43=%02x: the shift register did not change within %d machine cycles (period %d clocks)", nr43, periodClocks/4+8, periodClocks)
			return res
		}
		want := periodClocks / 4
		gaps := 0
		maxGaps := 12
		if want > 20000 {
			maxGaps = 2
		}
		for gaps < maxGaps {
			last = lf()
			n := 0
			for lf() == last && n <= want+4 {
				m.RunCycles(1)
				disturb()
				n++
			}
			if n != want {
				res.Fail("C21/ch4/period", m.N, "NR43=%02x (r=%d, s=%d): the shift register was clocked after %d machine cycles, expected %d (%d clocks)", nr43, rr, s, n, want, periodClocks)
				return res
			}
			gaps++
		}
		res.Probe("noise_periods")
		res.Sig(fmt.Sprintf("ch4/s=%d/r=%d/w=%d", s, rr, nr43>>3&1))
	case 6:
		f0, sh, p := int(sc.P("f", 1024)), uint(sc.P("shift", 1)), int(sc.P("period", 1))
		seq := []int{f0}
		for {
			f := seq[len(seq)-1]
			if f>>sh == 0 {
				break
			}
			seq = append(seq, f-f>>sh)
		}
		m.Write(0xff10, uint8(p<<4)|0x08|uint8(sh))
		m.Write(0xff12, 0xf0)
		m.Write(0xff13, uint8(f0))
		m.Write(0xff14, 0x80|uint8(f0>>8))
		duty := func() int { return int(m.APU.VerifWave().Duty1) }
		// every interval between two waveform steps is the period of one of the frequencies of the
		// sequence, and the sequence is walked forwards only; long enough for every sweep clock
		// (one per `period` x 8192 machine cycles) plus a margin, then whole periods at the final rate
		total := uint64(len(seq)+2)*uint64(p)*8192 + 3*2048
		last, lastAt, k, seen := duty(), uint64(0), 0, 0
		bad := ""
		m.OnCycle = func() {
			d := duty()
			if d == last || bad != "" {
				return
			}
			if (d-last+8)%8 != 1 {
				bad = fmt.Sprintf("the duty position jumped from %d to %d", last, d)
			}
			if lastAt != 0 && seen >= 1 {
				iv := int(m.N - lastAt)
				j := k
				for j < len(seq) && 2048-seq[j] != iv {
					j++
				}
				if j == len(seq) {
					bad = fmt.Sprintf("a waveform step came %d machine cycles after the previous one; the frequencies from here on are %v (one step per 2048-f machine cycles)", iv, seq[k:])
				} else {
					if j > k {
						res.Probe("sweep_changed_the_frequency")
					}
					k = j
				}
			}
			seen++
			last, lastAt = d, m.N
		}
		m.RunCycles(total)
		if bad == "" && k != len(seq)-1 {
			bad = fmt.Sprintf("after %d machine cycles (%d sweep clocks at least) the waveform still steps at the rate of frequency %d, the sweep unit has long reached %d", total, len(seq)+1, seq[k], seq[len(seq)-1])
		}
		if bad == "" {
			// whole periods at the final frequency
			want := 2048 - seq[len(seq)-1]
			n0, at0 := seen, m.N
			m.RunCycles(uint64(want) * 6)
			if got := seen - n0; got < 5 || got > 7 {
				bad = fmt.Sprintf("%d waveform steps in %d machine cycles at the final frequency %d, expected 6", got, m.N-at0, seq[len(seq)-1])
			}
		}
		m.OnCycle = nil
		if bad != "" {
			res.Fail("C21/ch1/sweep-period", m.N, "NR10=%02x, triggered at frequency %d: %s", uint8(p<<4)|0x08|uint8(sh), f0, bad)
			return res
		}
		res.Probe("square_periods")
		res.Sig(fmt.Sprintf("sweep/s=%d/p=%d", sh, p))
	default:
		// output sequence period at the fastest setting: one clock every 2 machine cycles
		nr43 := uint8(sc.P("nr43", 0))
		period := 32767
		if nr43&8 != 0 {
			period = 127
		}
		m.Write(0xff21, 0xf0)
		m.Write(0xff22, nr43)
		m.Write(0xff23, 0x80)
		var bits []uint8
		lf := func() uint16 { return m.APU.VerifWave().LFSR }
		last := lf()
		for len(bits) < 2*period+16 {
			m.RunCycles(1)
			if v := lf(); v != last {
				last = v
				bits = append(bits, uint8(v&1))
			}
			if m.N > uint64(8*period+4096) {
				break
			}
		}
		if len(bits) < 2*period+16 {
			res.Fail("C21/lfsr/too-slow", m.N, "NR43=%02x: only %d shift-register clocks in %d machine cycles", nr43, len(bits), m.N)
			return res
		}
		hasPeriod := func(p int) bool {
			for i := 0; i+p < len(bits); i++ {
				if bits[i] != bits[i+p] {
					return false
				}
			}
			return true
		}
		name := "lfsr15_period"
		if period == 127 {
			name = "lfsr7_period"
		}
		res.Probe(name)
		if !hasPeriod(period) {
			res.Fail(fmt.Sprintf("C21/lfsr/period-%d", period), m.N, "NR43=%02x: the output bit sequence does not repeat after %d clocks", nr43, period)
			return res
		}
		for _, q := range []int{1, 7, 31, 151, 217, 1057, 4681} {
			if q < period && period%q == 0 && hasPeriod(q) {
				res.Fail(fmt.Sprintf("C21/lfsr/period-%d", period), m.N, "NR43=%02x: the output bit sequence already repeats after %d clocks, it is not the maximal sequence of period %d", nr43, q, period)
				return res
			}
		}
		res.Sig(fmt.Sprintf("lfsr/%d", period))
	}
	res.Cycles = m.N
	{
		dg := engine.NewDigest()
		w := m.APU.VerifWave()
		dg.Bytes([]byte{w.Duty1, w.Duty2, w.Pos3})
		dg.U16(w.LFSR)
		dg.U64(m.N)
		res.Digest = uint64(dg)
	}
	return res
}
