package props

import (
	"fmt"

	"github.com/scottyw/tetromino/gameboy/memory"

	"verifsim/dmgref"
	"verifsim/engine"
	"verifsim/machine"
)

// C10 — the MBC3 real-time clock keeps time and latches correctly.
//
// Simulated dimension: time. One clock second is 1,048,576 machine cycles of the real frame
// loop, so seconds of clock time are really run; the "clock warp" fault (verif accessor)
// jumps the live counters and the sub-second count to just before a boundary so that minute,
// hour, day and day-carry transitions are reached in bounded time, the counting itself always
// being done by the real code. Histories of latch-low/latch-high/select/read/write/halt
// operations are interleaved with elapsed time from one cycle to seconds.
type c10 struct{}

func init() { engine.Register(c10{}) }

func (c10) PostGenerate(r *engine.Rand, sc *engine.Scenario) { chooseEnv(r, sc) }

func (c10) ID() string { return "C10" }

func (c10) Budget(tier string) int {
	if tier == "thorough" {
		return 24000
	}
	return 480
}

func (c10) Describe() engine.Info {
	return engine.Info{
		Rule: "class history: MBC3 cartridge, 6..40 operations over {RAM/clock gate open/close (latches also while it is closed), latch 0, latch 1, select register 08-0C (and RAM banks), read, write (incl. seconds write and halt on/off), clock warp to k cycles before a second boundary with counters near 59/59/23/511} separated by 1..6 cycles, a fraction of a second, or 1-3 seconds. After every operation and after every elapsed span the selected register is read and compared; " +
			"class step: the one-second step from sampled and boundary counter states through the accessor, compared with the reference step. Oracle: reference RTC (60/60/24/512 carries, sticky day carry, halt freezes counters and sub-second count, latch only on 0 then 1, masks 3F/3F/1F/FF/C1, writes set live counters, seconds write restarts the sub-second count). Signature = (operation, selected register, halted, latch state, carry level reached)." +
			" Histories also contain bursts of OAM DMA transfers and LCD/timer/sound switches; cartridges with and without RAM, every RAM size, several ROM sizes; environment: CPU parked looping, halted or stopped. ROM sizes up to 8 MiB; floods of 254..600 consecutive latch-0 writes before the 1.",
		Assumptions:    []string{"counter values outside 0-59/0-23 written by the guest are judged for masks only", "the clock warp is a fault injected through the verif accessor into both the emulator and the model"},
		RequiredProbes: []string{"latch_with_gate_closed", "second_boundary_crossed", "minute_carry", "hour_carry", "day_carry", "day_overflow", "halted_span", "latch_without_low", "seconds_write", "step_cases", "dma_while_clock_runs"},
		RealComponents: realComponents, StubComponents: stubComponents,
		Sweeps: []string{"class step: per scenario 20000 counter states (every state with s>=58 or m>=58 or h>=22 or d>=510 is favoured) x one-second step"},
	}
}

func (c10) Generate(r *engine.Rand, index int, tier string) *engine.Scenario {
	sc := &engine.Scenario{}
	sc.Cart = engine.CartSpec{Kind: "mbc3", Type: 0x10, RomCode: 1, RamCode: 3, Program: "18fe", FillSeed: r.U64()}
	if r.Chance(1, 2) {
		// every cartridge with the clock: with and without RAM, every declared RAM size, several ROM sizes
		sc.Cart.RamCode = engine.Pick(r, []uint8{0, 1, 2, 4, 5})
		sc.Cart.RomCode = uint8(r.Intn(5))
		if r.Chance(1, 6) {
			sc.Cart.RomCode = uint8(r.Range(5, 8)) // up to the 8 MiB a header can declare
		}
		if sc.Cart.RamCode == 0 {
			sc.Cart.Type = 0x0f
		}
	}
	if index%6 == 5 {
		sc.Class = "step"
		sc.SetP("seed", int64(r.U64()>>1))
		sc.SetP("count", 20000)
		sc.Cycles = 1
		return sc
	}
	sc.Class = "history"
	at := uint64(1)
	add := func(ev engine.Event) {
		ev.At = at
		sc.Events = append(sc.Events, ev)
	}
	add(engine.Event{K: "bus_w", A: 0x0000, V: 0x0a, S: "enable"})
	n := r.Range(6, 40)
	long := 0
	for i := 0; i < n; i++ {
		switch g := r.Intn(12); {
		case g < 8:
			at += uint64(r.Range(1, 6))
		case g < 10:
			at += uint64(r.Range(100, 400000))
		default:
			if long < 3 {
				at += uint64(r.Range(1, 3))*1048576 + uint64(r.Intn(3)) - 1
				long++
			} else {
				at += uint64(r.Range(1, 50))
			}
		}
		switch k := r.Intn(18); {
		case k == 16:
			// the other bus parties are busy meanwhile: an OAM DMA transfer (the clock is stepped by the
			// same per-cycle call of the memory unit), often several in a row like a game's frame routine
			for j, q := 0, r.Range(1, 6); j < q; j++ {
				add(engine.Event{K: "bus_w", A: 0xff46, V: engine.Pick(r, []uint8{0x00, 0x40, 0x80, 0xa0, 0xc0, 0xdf, 0xf1}), S: "dma"})
				at += uint64(r.Range(1, 400))
			}
		case k == 17:
			x := engine.Pick(r, [][2]int{{0xff40, 0x91}, {0xff40, 0x00}, {0xff07, 0x05}, {0xff26, 0x80}, {0xff26, 0x00}, {0xff04, 0x00}})
			add(engine.Event{K: "bus_w", A: uint16(x[0]), V: uint8(x[1]), S: "io"})
		case k >= 14:
			// the RAM/clock access gate: latching does not depend on it, reading does
			v := uint8(0x0a)
			if r.Chance(3, 5) {
				v = engine.Pick(r, []uint8{0x00, 0x0b, 0xa0, 0xff, 0x1a})
			}
			add(engine.Event{K: "bus_w", A: uint16(r.Intn(0x2000)), V: v, S: "gate"})
			if v != 0x0a && r.Chance(2, 3) {
				// latch while the gate is closed, then open it again
				at += uint64(r.Range(1, 2000))
				add(engine.Event{K: "bus_w", A: 0x6000 + uint16(r.Intn(0x2000)), V: 0x00, S: "latch0"})
				at += uint64(r.Range(1, 6))
				add(engine.Event{K: "bus_w", A: 0x6000 + uint16(r.Intn(0x2000)), V: 0x01, S: "latch1"})
				at += uint64(r.Range(1, 6))
				add(engine.Event{K: "bus_w", A: uint16(r.Intn(0x2000)), V: 0x0a, S: "gate"})
			}
		case k < 2:
			add(engine.Event{K: "bus_w", A: 0x6000 + uint16(r.Intn(0x2000)), V: r.Byte() &^ 1, S: "latch0"})
			if r.Chance(1, 30) {
				// a guest that keeps writing 0 to the latch register (hundreds of times) before the 1
				for j, q := 0, engine.Pick(r, []int{254, 255, 256, 257, 511, 512, 600}); j < q; j++ {
					at += uint64(r.Range(1, 3))
					add(engine.Event{K: "bus_w", A: 0x6000 + uint16(r.Intn(0x2000)), V: 0x00, S: "latch0"})
				}
				at += uint64(r.Range(1, 3))
				add(engine.Event{K: "bus_w", A: 0x6000 + uint16(r.Intn(0x2000)), V: 0x01, S: "latch1"})
			}
		case k < 4:
			add(engine.Event{K: "bus_w", A: 0x6000 + uint16(r.Intn(0x2000)), V: r.Byte() | 1, S: "latch1"})
		case k < 6:
			add(engine.Event{K: "bus_w", A: 0x4000 + uint16(r.Intn(0x2000)), V: uint8(0x08 + r.Intn(5)), S: "select"})
		case k == 6:
			add(engine.Event{K: "bus_w", A: 0x4000 + uint16(r.Intn(0x2000)), V: uint8(r.Intn(4)), S: "select"})
		case k < 9:
			add(engine.Event{K: "bus_r", A: 0xa000 + uint16(r.Intn(0x2000)), S: "read"})
		case k < 11:
			add(engine.Event{K: "bus_w", A: 0xa000 + uint16(r.Intn(0x2000)), V: r.Byte(), S: "write"})
		case k == 11: // halt on/off through the control register
			add(engine.Event{K: "bus_w", A: 0x4000, V: 0x0c, S: "select"})
			at++
			add(engine.Event{K: "bus_w", A: 0xa000, V: uint8(r.Intn(2))<<6 | r.Byte()&0x81, S: "write"})
		default: // clock warp
			s, mi, h, d := uint8(r.Intn(60)), uint8(r.Intn(60)), uint8(r.Intn(24)), uint16(r.Intn(512))
			lvl := r.Intn(5)
			if lvl >= 1 {
				s = 59
			}
			if lvl >= 2 {
				mi = 59
			}
			if lvl >= 3 {
				h = 23
			}
			if lvl >= 4 {
				d = 511
			}
			packed := int64(s) | int64(mi)<<8 | int64(h)<<16 | int64(d)<<24
			add(engine.Event{K: "warp", N: packed, A: uint16(r.Range(1, 12)), S: "warp"})
		}
		at++
	}
	sc.Cycles = at + uint64(r.Range(2, 40))
	return sc
}

func (c10) Execute(sc *engine.Scenario) *engine.Result {
	res := &engine.Result{}
	img, err := cartBuild(sc.Cart)
	if err != nil {
		res.Harness = err.Error()
		return res
	}
	m, pi := machine.New(img, false, machine.Options{})
	if pi != nil {
		res.Harness = "construction panicked: " + pi.Value
		return res
	}
	m.Write(0xff40, 0)
	park(sc, m, res)
	if sc.Class == "step" {
		return c10Step(sc, m, res)
	}
	ct := dmgref.NewCart(img)
	dg := engine.NewDigest()
	ok := true
	check := func(what string) {
		if !ct.RamOn || ct.RamB < 0x08 || ct.RamB > 0x0c {
			return
		}
		got := m.Read(0xa000)
		want, _ := ct.Read(0xa000)
		dg.Byte(got)
		if got != want {
			reg := []string{"seconds", "minutes", "hours", "day-low", "control"}[ct.RamB-8]
			rt := &ct.RTC
			res.Fail("C10/"+reg+"/"+what, m.N, "clock register %s reads %02x, reference %02x (live reference %02d:%02d:%02d day %d carry=%v halt=%v sub=%d; latched %02d:%02d:%02d day %d)", reg, got, want, rt.H, rt.M, rt.S, rt.D, rt.Carry, rt.Halt, rt.Sub, rt.LH, rt.LM, rt.LS, rt.LD)
			ok = false
		}
	}
	m.OnCycle = func() {
		before := ct.RTC
		ct.RTC.Tick()
		if ct.RTC.S != before.S && !before.Halt {
			res.Probe("second_boundary_crossed")
			if ct.RTC.S == 0 && before.S == 59 {
				res.Probe("minute_carry")
				if ct.RTC.M == 0 && before.M == 59 {
					res.Probe("hour_carry")
					if ct.RTC.H == 0 && before.H == 23 {
						res.Probe("day_carry")
						if ct.RTC.D == 0 && before.D == 511 {
							res.Probe("day_overflow")
						}
					}
				}
			}
		}
	}
	ei := 0
	for m.N < sc.Cycles && ok {
		for ei < len(sc.Events) && sc.Events[ei].At <= m.N && ok {
			ev := sc.Events[ei]
			ei++
			switch ev.K {
			case "bus_w":
				if ev.S == "latch1" && !ct.LatchLow {
					res.Probe("latch_without_low")
				}
				if ev.S == "latch1" && ct.LatchLow && !ct.RamOn {
					res.Probe("latch_with_gate_closed")
				}
				if ev.S == "write" && ct.RamOn && ct.RamB == 0x08 {
					res.Probe("seconds_write")
				}
				if ev.S == "dma" && !ct.RTC.Halt {
					res.Probe("dma_while_clock_runs")
				}
				ct.Write(ev.A, ev.V)
				m.Write(ev.A, ev.V)
				res.Fault(ev.S)
			case "bus_r":
				res.Fault("read")
			case "warp":
				rt := memory.VerifRTC{S: uint8(ev.N), M: uint8(ev.N >> 8), H: uint8(ev.N >> 16), D: uint16(ev.N>>24) & 0x1ff,
					Carry: ct.RTC.Carry, Halt: ct.RTC.Halt, Ticks: 1048576 - int(ev.A)}
				m.Map.VerifSetRTC(rt)
				ct.RTC.S, ct.RTC.M, ct.RTC.H, ct.RTC.D, ct.RTC.Sub = rt.S, rt.M, rt.H, rt.D, rt.Ticks
				res.Fault("clock_warp")
			}
			lvl := 0
			if ct.RTC.S == 59 {
				lvl = 1
				if ct.RTC.M == 59 {
					lvl = 2
					if ct.RTC.H == 23 {
						lvl = 3
					}
				}
			}
			res.Sig(fmt.Sprintf("%s/sel=%02x/halt=%v/low=%v/lvl=%d", ev.S, ct.RamB, ct.RTC.Halt, ct.LatchLow, lvl))
			check("after-" + ev.S)
		}
		if !ok {
			break
		}
		next := sc.Cycles
		if ei < len(sc.Events) && sc.Events[ei].At < next {
			next = sc.Events[ei].At
		}
		if next <= m.N {
			next = m.N + 1
		}
		if ct.RTC.Halt && next-m.N > 1000 {
			res.Probe("halted_span")
		}
		m.RunCycles(next - m.N)
		check("after-time")
		// latch and read all five registers from time to time without disturbing the guest-visible state?
		// (a latch is guest-visible, so it is only done by scenario events)
	}
	// final: the live counters themselves (through the accessor) must agree with the model
	if ok {
		rt := m.Map.VerifGetRTC()
		r := &ct.RTC
		if rt.S != r.S || rt.M != r.M || rt.H != r.H || rt.D != r.D || rt.Carry != r.Carry || rt.Halt != r.Halt || (rt.Ticks != r.Sub && !r.Halt) {
			res.Fail("C10/live-counters", m.N, "live clock %02d:%02d:%02d day %d carry=%v halt=%v sub=%d, reference %02d:%02d:%02d day %d carry=%v halt=%v sub=%d", rt.H, rt.M, rt.S, rt.D, rt.Carry, rt.Halt, rt.Ticks, r.H, r.M, r.S, r.D, r.Carry, r.Halt, r.Sub)
		}
	}
	res.Cycles = m.N
	res.Digest = uint64(dg)
	return res
}

func c10Step(sc *engine.Scenario, m *machine.Machine, res *engine.Result) *engine.Result {
	r := engine.NewRand(uint64(sc.P("seed", 1)))
	n := int(sc.P("count", 1000))
	for i := 0; i < n; i++ {
		var s, mi, h uint8
		var d uint16
		if r.Chance(2, 3) {
			s, mi, h, d = uint8(58+r.Intn(2)), uint8(58+r.Intn(2)), uint8(22+r.Intn(2)), uint16(510+r.Intn(2))
			// relax some of the fields
			if r.Bool() {
				d = uint16(r.Intn(512))
			}
			if r.Chance(1, 3) {
				h = uint8(r.Intn(24))
			}
			if r.Chance(1, 4) {
				mi = uint8(r.Intn(60))
			}
			if r.Chance(1, 5) {
				s = uint8(r.Intn(60))
			}
		} else {
			s, mi, h, d = uint8(r.Intn(60)), uint8(r.Intn(60)), uint8(r.Intn(24)), uint16(r.Intn(512))
		}
		carry := r.Bool()
		m.Map.VerifSetRTC(memory.VerifRTC{S: s, M: mi, H: h, D: d, Carry: carry})
		ref := dmgref.RTC{S: s, M: mi, H: h, D: d, Carry: carry}
		m.Map.VerifRTCStep()
		ref.Second()
		got := m.Map.VerifGetRTC()
		res.Probe("step_cases")
		if got.S != ref.S || got.M != ref.M || got.H != ref.H || got.D != ref.D || got.Carry != ref.Carry {
			res.Fail("C10/one-second-step", uint64(i), "one second after %02d:%02d:%02d day %d carry=%v the clock shows %02d:%02d:%02d day %d carry=%v, expected %02d:%02d:%02d day %d carry=%v", h, mi, s, d, carry, got.H, got.M, got.S, got.D, got.Carry, ref.H, ref.M, ref.S, ref.D, ref.Carry)
			return res
		}
	}
	res.Sig("step")
	res.Sig("step-boundary-states")
	return res
}
