package props

import (
	"fmt"

	"verifsim/dmgref"
	"verifsim/engine"
	"verifsim/machine"
)

// C06 — address space and I/O registers read back as on a DMG.
//
// Simulated dimension: histories of bus operations interleaved with elapsing time, with the
// other parties running: registers that move on their own (DIV, TIMA, IF, STAT mode, LY) are
// compared against the running reference (timer model, LCD state), not against the last
// write. The CPU is parked; the scripted bus master reads and writes anywhere in 0000-FFFF.
type c06 struct{}

func init() { engine.Register(c06{}) }

func (c06) PostGenerate(r *engine.Rand, sc *engine.Scenario) { chooseEnvConfig(r, sc) }

func (c06) ID() string { return "C06" }

func (c06) Budget(tier string) int {
	if tier == "thorough" {
		return 16000
	}
	return 2560
}

func (c06) Describe() engine.Info {
	return engine.Info{
		Rule: "class timer-hot: timer at its fastest rate with TMA near FF, writes and reads of DIV/TIMA/TMA/TAC/IF 1..5 cycles apart so that writes land in every cycle of the overflow/reload sequence; class ie-dispatch: the CPU loops with the master enable set while IE and IF are written and read (requests are dispatched in between): IE stays plain memory, IF keeps its unused bits; class history: cartridge (ROM-only/MBC1/MBC2/MBC3/MBC5) + 100..1500 reads and writes with address classes weighted so that every I/O register FF00-FF7F, every region boundary +-1 (8000, A000, C000, DE00, E000, FE00, FEA0, FF00, FF80, FFFF) and every region are hit, 0..3 cycles apart with occasional long gaps; sub-classes lcd-off (LCD switched off first and kept off: VRAM and OAM are judged) and lcd-any. Class sweep: every address of a 2048-address chunk (index-enumerated over the whole 64 KiB) gets one write and an immediate read-back. After every write the address and its mirror are read back; every 200 operations and at the end all 65,536 addresses are compared. " +
			"Oracle: reference memory map with per-register write masks, unused bits reading 1, unmapped I/O reading FF, echo both ways, FEA0-FEFF = 00, reference timer for DIV/TIMA/TMA/TAC, LY/STAT mode only judged with the LCD off (C13 otherwise), sound registers left to C18. Signature = (address class, operation, LCD on, value class)." +
			" A request bit of IF that is set (written, or seen set) must stay set until written or dispatched. Class dma-hot: transfers out of work RAM while the guest stores into the bytes being fetched and reads them back; FF46 rewritten at distances around the length of a transfer and read back. dma-hot also transfers out of video memory (LCD off).",
		Assumptions:    []string{"OBP0/OBP1 bits 0-1 are accepted either way (unused by the hardware)", "after an OAM DMA the model takes over the resulting OAM contents (C16 judges them)", "VRAM/OAM are judged only while the LCD has been off since their last resynchronisation", "no buttons are held"},
		RequiredProbes: []string{"ie_read_while_dispatching", "timer_reload_cycle_write", "full_sweeps", "echo_checked", "unmapped_io_checked", "div_written", "ly_written", "dma_register_written", "vram_oam_checked_lcd_off"},
		RealComponents: realComponents, StubComponents: stubComponents,
		Sweeps: []string{"single write + read-back of every address 0000-FFFF (32 chunks of 2048, class sweep)"},
	}
}

var c06Boundaries = []uint16{0x0000, 0x3fff, 0x4000, 0x7fff, 0x8000, 0x9fff, 0xa000, 0xbfff, 0xc000, 0xddff, 0xde00, 0xdfff, 0xe000, 0xfdff, 0xfe00, 0xfe9f, 0xfea0, 0xfeff, 0xff00, 0xff7f, 0xff80, 0xfffb, 0xfffe, 0xffff}

func c06Addr(r *engine.Rand) uint16 {
	switch r.Intn(10) {
	case 0, 1, 2:
		a := uint16(0xff00 + r.Intn(0x80))
		if a >= 0xff10 && a < 0xff40 && r.Chance(3, 4) {
			a = engine.Pick(r, []uint16{0xff00, 0xff04, 0xff05, 0xff06, 0xff07, 0xff0f, 0xff40, 0xff41, 0xff42, 0xff43, 0xff44, 0xff45, 0xff46, 0xff47, 0xff48, 0xff49, 0xff4a, 0xff4b, 0xff4d, 0xff50, 0xff70, 0xff03, 0xff08})
		}
		return a
	case 3:
		return engine.Pick(r, c06Boundaries)
	case 4:
		return 0xc000 + uint16(r.Intn(0x2000))
	case 5:
		return 0xe000 + uint16(r.Intn(0x1e00))
	case 6:
		return 0x8000 + uint16(r.Intn(0x2000))
	case 7:
		return 0xfe00 + uint16(r.Intn(0x100))
	case 8:
		return 0xff80 + uint16(r.Intn(0x80))
	}
	return r.U16()
}

func (c06) Generate(r *engine.Rand, index int, tier string) *engine.Scenario {
	sc := &engine.Scenario{}
	c := allCartConfigs[r.Intn(len(allCartConfigs))]
	if c.romCode > 3 {
		c.romCode = uint8(r.Intn(4))
	}
	sc.Cart = engine.CartSpec{Kind: c.kind, Type: c.typ, RomCode: c.romCode, RamCode: c.ramCode, Program: "18fe", FillSeed: r.U64()}
	if index%4 == 3 {
		sc.Class = "sweep"
		sc.SetP("base", int64((index/4)%32)*2048)
		sc.SetP("vseed", int64(r.U64()>>1))
		sc.SetP("lcdoff", int64(r.Intn(2)))
		sc.Cycles = 1
		return sc
	}
	if index%16 == 5 {
		// the timer registers under a running, frequently overflowing timer: TMA and TAC read back
		// what was written whenever the write lands (reload cycles included)
		sc.Class = "timer-hot"
		sc.SetP("lcdoff", 1)
		at := uint64(1)
		sc.Events = append(sc.Events, engine.Event{At: at, K: "bus_w", A: 0xff07, V: 0x05})
		for i, n := 0, r.Range(100, 600); i < n; i++ {
			at += uint64(r.Range(1, 6))
			a := engine.Pick(r, []uint16{0xff06, 0xff06, 0xff06, 0xff05, 0xff07, 0xff04, 0xff0f})
			if r.Chance(1, 2) {
				sc.Events = append(sc.Events, engine.Event{At: at, K: "bus_r", A: engine.Pick(r, []uint16{0xff06, 0xff07, 0xff05, 0xff04})})
				continue
			}
			v := r.EdgeByte()
			switch a {
			case 0xff06, 0xff05:
				if r.Chance(3, 4) {
					v = 0xf0 | r.Byte()&0x0f
				}
			case 0xff07:
				if r.Chance(3, 4) {
					v = 0x05 | r.Byte()&0xf8
				}
			case 0xff04:
				if r.Chance(2, 3) {
					continue
				}
			}
			sc.Events = append(sc.Events, engine.Event{At: at, K: "bus_w", A: a, V: v})
		}
		sc.Cycles = at + 8
		return sc
	}
	if index%16 == 13 {
		// IE and IF while the CPU dispatches: the guest loop runs with the master enable set, so
		// written requests are taken; IE stays plain memory and IF keeps its unused bits
		sc.Class = "ie-dispatch"
		sc.SetP("lcdoff", 1)
		sc.SetP("ime", 1)
		at := uint64(1)
		for i, n := 0, r.Range(40, 300); i < n; i++ {
			at += uint64(r.Range(1, 40))
			switch r.Intn(4) {
			case 0:
				sc.Events = append(sc.Events, engine.Event{At: at, K: "bus_w", A: 0xffff, V: r.EdgeByte()})
			case 1:
				sc.Events = append(sc.Events, engine.Event{At: at, K: "bus_w", A: 0xff0f, V: r.Byte()})
			case 2:
				sc.Events = append(sc.Events, engine.Event{At: at, K: "bus_r", A: 0xffff})
			default:
				sc.Events = append(sc.Events, engine.Event{At: at, K: "bus_r", A: engine.Pick(r, []uint16{0xff0f, 0xffff, 0xff80 + uint16(r.Intn(0x70))})})
			}
		}
		sc.Cycles = at + 40
		return sc
	}
	if index%16 == 9 {
		// OAM DMA transfers out of work RAM (and its mirror) while the guest stores into the very bytes the
		// transfer is fetching and reads them back; FF46 rewritten while a transfer runs, at distances
		// around its length, and read back each time
		sc.Class = "dma-hot"
		sc.SetP("lcdoff", 1)
		at := uint64(r.Range(1, 30))
		for i, n := 0, r.Range(2, 8); i < n; i++ {
			page := uint8(r.Range(0xc0, 0xdf))
			if r.Chance(1, 4) {
				page = uint8(r.Range(0xe0, 0xf1))
			} else if r.Chance(1, 4) {
				page = uint8(r.Range(0x80, 0x9f)) // out of video memory (the LCD is off: plain memory)
			}
			sc.Events = append(sc.Events, engine.Event{At: at, K: "bus_w", A: 0xff46, V: page})
			start := at
			src := uint16(page) << 8
			if src >= 0xe000 {
				src -= 0x2000
			}
			for j, k := 0, r.Range(2, 30); j < k; j++ {
				c := r.Range(1, 162)
				b := c - 2 + r.Range(-1, 1)
				if b < 0 {
					b = 0
				}
				if b > 0x9f {
					b = 0x9f
				}
				a := src + uint16(b)
				if r.Chance(1, 4) && a >= 0xc000 && a < 0xde00 {
					a += 0x2000 // through the mirror
				}
				sc.Events = append(sc.Events, engine.Event{At: start + uint64(c), K: "bus_w", A: a, V: r.Byte()})
				sc.Events = append(sc.Events, engine.Event{At: start + uint64(c) + uint64(r.Range(1, 200)), K: "bus_r", A: src + uint16(b)})
			}
			sc.Events = append(sc.Events, engine.Event{At: start + uint64(r.Range(1, 170)), K: "bus_r", A: 0xff46})
			gap := uint64(engine.Pick(r, []int{1, 2, 3, 157, 158, 159, 160, 161, 162, 163, 164, 400}))
			if r.Chance(1, 4) {
				gap = uint64(r.Range(1, 170))
			}
			at = start + gap
		}
		sc.Events = append(sc.Events, engine.Event{At: at + 1, K: "bus_r", A: 0xff46})
		sortEvents(sc.Events)
		// one bus operation per boundary
		for i := 1; i < len(sc.Events); i++ {
			if sc.Events[i].At <= sc.Events[i-1].At {
				sc.Events[i].At = sc.Events[i-1].At + 1
			}
		}
		sc.Cycles = sc.Events[len(sc.Events)-1].At + 200
		return sc
	}
	sc.Class = "history"
	lcdoff := index%2 == 0
	sc.SetP("lcdoff", map[bool]int64{true: 1, false: 0}[lcdoff])
	at := uint64(1)
	n := r.Range(100, 1500)
	for i := 0; i < n; i++ {
		switch g := r.Intn(30); {
		case g < 20:
			at += uint64(r.Intn(4))
		case g < 29:
			at += uint64(r.Range(1, 60))
		default:
			at += uint64(r.Range(100, 20000))
		}
		a := c06Addr(r)
		if a == 0xfffc || a == 0xfffd {
			continue // the parked CPU's loop
		}
		if r.Chance(3, 5) {
			v := r.EdgeByte()
			if a == 0xff40 && lcdoff {
				v &^= 0x80
			}
			if a == 0xff46 {
				v = uint8(r.Intn(0x100))
				if v >= 0xf2 && r.Chance(3, 4) {
					v = uint8(r.Intn(0xf2))
				}
			}
			sc.Events = append(sc.Events, engine.Event{At: at, K: "bus_w", A: a, V: v})
		} else {
			sc.Events = append(sc.Events, engine.Event{At: at, K: "bus_r", A: a})
		}
		at++
	}
	sc.Cycles = at + 8
	return sc
}

func c06Class(a uint16) string {
	switch {
	case a < 0x8000:
		return "rom"
	case a < 0xa000:
		return "vram"
	case a < 0xc000:
		return "cartram"
	case a < 0xe000:
		return "wram"
	case a < 0xfe00:
		return "echo"
	case a < 0xfea0:
		return "oam"
	case a < 0xff00:
		return "unusable"
	case a >= 0xff80 && a < 0xffff:
		return "hram"
	case dmgref.Unmapped(a):
		return "unmapped-io"
	case a >= 0xff10 && a < 0xff40:
		return "sound"
	}
	return fmt.Sprintf("%04x", a)
}

func (c06) Execute(sc *engine.Scenario) *engine.Result {
	res := &engine.Result{}
	img, err := cartBuild(sc.Cart)
	if err != nil {
		res.Harness = err.Error()
		return res
	}
	m, pi := machine.New(img, false, machine.Options{})
	if pi != nil {
		res.Harness = "construction panicked: " + pi.Value
		return res
	}
	ref := dmgref.NewMem(img, m.Tim.VerifCounter())
	videoTrusted := false // VRAM/OAM contents of the model are authoritative
	write := func(a uint16, v uint8) {
		wasOn := ref.LCDOn()
		ref.Write(a, v)
		m.Write(a, v)
		if ref.LCDOn() {
			videoTrusted = false
		}
		_ = wasOn
	}
	resyncVideo := func() {
		for a := 0x8000; a < 0xa000; a++ {
			ref.VRAM[a-0x8000] = m.Read(uint16(a))
		}
		ref.OAM = m.PeekOAM()
		videoTrusted = true
	}
	// park the CPU (through the model as well: the loop bytes live in high RAM)
	write(0xfffc, 0x18)
	write(0xfffd, 0xfe)
	m.Park()
	if sc.P("lcdoff", 0) != 0 {
		write(0xff40, 0x11)
		resyncVideo()
	}
	dispatching := sc.P("ime", 0) != 0
	if dispatching {
		m.IRQ.Enable()
	}
	dg := engine.NewDigest()
	ok := true
	check := func(a uint16, op string) bool {
		want, mask := ref.Read(a)
		cls := c06Class(a)
		if dispatching {
			switch {
			case a >= 0xfff0 && a < 0xfffc:
				return true // the stack of the dispatching CPU
			case a == 0xff0f:
				mask &= 0xe0 // which requests have been taken is C04's; the unused bits are judged
			}
			if a == 0xffff {
				res.Probe("ie_read_while_dispatching")
			}
		}
		if (cls == "vram" || cls == "oam") && !videoTrusted {
			mask = 0
		}
		if cls == "oam" || cls == "unusable" {
			if ref.LCDOn() {
				return true // a bus read of FE00-FEFF with the LCD on is itself an event (OAM bug)
			}
		}
		if mask == 0 {
			return true
		}
		got := m.Read(a)
		dg.Byte(got)
		if (got^want)&mask != 0 {
			res.Fail("C06/"+cls+"/"+op, m.N, "%04x reads %02x, documented %02x (determined bits %02x; LCD on=%v)", a, got, want, mask, ref.LCDOn())
			ok = false
			return false
		}
		if a == 0xff0f && !dispatching {
			// a request the hardware has raised is seen here for the first time: from now on it is set
			// (nothing dispatches it: the master enable is clear) until it is written
			if seen := got & ref.IFDirty & 0x1f &^ ref.IF; seen != 0 {
				ref.IF |= seen
				res.Probe("if_request_raised_by_hardware_observed")
			}
		}
		switch cls {
		case "echo":
			res.Probe("echo_checked")
		case "unmapped-io":
			res.Probe("unmapped_io_checked")
		case "vram", "oam":
			res.Probe("vram_oam_checked_lcd_off")
		}
		return true
	}
	sweep := func() {
		for a := 0; a < 0x10000 && ok; a++ {
			check(uint16(a), "sweep")
		}
		res.Probe("full_sweeps")
	}
	m.OnCycle = func() {
		busy := ref.OAMBusy > 0
		ref.Tick()
		if busy && ref.OAMBusy == 0 {
			ref.OAM = m.PeekOAM() // the transfer is over: C16 judges what it copied
		}
	}
	if sc.Class == "sweep" {
		r := engine.NewRand(uint64(sc.P("vseed", 1)))
		base := int(sc.P("base", 0))
		for i := 0; i < 2048 && ok; i++ {
			a := uint16(base + i)
			if a == 0xfffc || a == 0xfffd || a == 0xff46 {
				continue
			}
			v := r.EdgeByte()
			if a == 0xff40 && sc.P("lcdoff", 0) != 0 {
				v &^= 0x80
			}
			write(a, v)
			check(a, "single-write")
			if a >= 0xc000 && a < 0xde00 {
				check(a+0x2000, "single-write-mirror")
			}
			if a >= 0xe000 && a < 0xfe00 {
				check(a-0x2000, "single-write-mirror")
			}
			res.Sig(fmt.Sprintf("sweep/%s", c06Class(a)))
			if i%64 == 63 {
				m.RunCycles(1)
			}
		}
		if ok {
			sweep()
		}
		res.Cycles = m.N
		res.Digest = uint64(dg)
		return res
	}
	ei := 0
	ops := 0
	for m.N < sc.Cycles && ok {
		for ei < len(sc.Events) && sc.Events[ei].At <= m.N && ok {
			ev := sc.Events[ei]
			ei++
			ops++
			cls := c06Class(ev.A)
			switch ev.K {
			case "bus_w":
				wasOn := ref.LCDOn()
				if ev.A == 0xff06 && ref.Timer.Phase == 2 {
					res.Probe("timer_reload_cycle_write")
				}
				write(ev.A, ev.V)
				if wasOn && !ref.LCDOn() {
					resyncVideo() // the LCD was on: video memory may have been touched by the OAM bug
				}
				switch ev.A {
				case 0xff04:
					res.Probe("div_written")
				case 0xff44:
					res.Probe("ly_written")
				case 0xff46:
					res.Probe("dma_register_written")
				}
				check(ev.A, "after-write")
				if ev.A >= 0xc000 && ev.A < 0xde00 {
					check(ev.A+0x2000, "mirror-after-write")
				}
				if ev.A >= 0xe000 && ev.A < 0xfe00 {
					check(ev.A-0x2000, "mirror-after-write")
				}
				res.Fault("bus_write")
				res.Sig(fmt.Sprintf("w/%s/lcd=%v", cls, ref.LCDOn()))
			case "bus_r":
				check(ev.A, "read")
				res.Fault("bus_read")
				res.Sig(fmt.Sprintf("r/%s/lcd=%v", cls, ref.LCDOn()))
			}
			if ops%200 == 0 && ok {
				sweep()
			}
		}
		if !ok {
			break
		}
		next := sc.Cycles
		if ei < len(sc.Events) && sc.Events[ei].At < next {
			next = sc.Events[ei].At
		}
		if next <= m.N {
			next = m.N + 1
		}
		m.RunCycles(next - m.N)
	}
	if ok {
		sweep()
	}
	res.Cycles = m.N
	res.Digest = uint64(dg)
	return res
}
