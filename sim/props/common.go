// Package props holds one file per property: scenario generator (workload + fault mix),
// oracle, coverage signature and violation classifier.
package props

import (
	"github.com/scottyw/tetromino/gameboy/controller"

	"fmt"

	"verifsim/cart"
	"verifsim/engine"
	"verifsim/machine"
)

var realComponents = []string{
	"gameboy.New/Run/runFrame/Cleanup (real frame loop)", "cpu", "interrupts", "memory (mapper, MBC1/2/3/5, RTC)",
	"oam (DMA, OAM bug)", "ppu", "audio", "timer", "controller", "serial",
}
var stubComponents = []string{
	"display (simulated window: records frames, close request, key delivery)",
	"speakers (simulated audio consumer owning the two sample channels)",
	"context.Context (SimContext: cancellation + per-cycle yield point)",
	"serial io.Writer (recording writer)", "ROM file (generated image on a scratch dir)",
}

// build constructs the machine for a scenario. A construction panic is a harness fault for
// every property except those that test hostile images.
func build(sc *engine.Scenario, res *engine.Result) *machine.Machine {
	img, err := cart.Build(sc.Cart)
	if err != nil {
		res.Harness = "cart build: " + err.Error()
		return nil
	}
	envAudio, envVideo := sc.P("env.audio", 0) != 0 && !sc.Audio, sc.P("env.video", 0) != 0 && !sc.Video
	m, pi := machine.New(img, sc.Cart.Missing, machine.Options{Audio: sc.Audio || envAudio, Video: sc.Video || envVideo, Serial: sc.Serial, ChanCap: sc.ChanCap, DebugLCD: sc.P("env.debuglcd", 0) != 0, DebugCPU: sc.P("debugcpu", 0) != 0 || sc.P("env.debugcpu", 0) != 0})
	if pi != nil {
		res.Harness = fmt.Sprintf("construction panicked for a well-formed cartridge: %s (%s)", pi.Value, pi.Site)
		return nil
	}
	if envAudio {
		// outputs attached although the property is not about them: a prompt consumer takes the samples
		m.AutoDrain = true
		res.Probe("env_audio_attached")
	}
	return m
}

// simpleRom is a 32 KiB ROM-only cartridge whose program is an endless JR loop.
func simpleRom() engine.CartSpec {
	return cart.Simple("rom", []byte{0x18, 0xfe})
}

func hex8(v uint8) string   { return fmt.Sprintf("%02x", v) }
func hex16(v uint16) string { return fmt.Sprintf("%04x", v) }

// applyBus applies the generic bus events. It returns false if the kind is not a bus event.
func applyBus(m *machine.Machine, ev *engine.Event) bool {
	switch ev.K {
	case "bus_w":
		m.Write(ev.A, ev.V)
	case "bus_r":
		ev.N = int64(m.Read(ev.A))
	default:
		return false
	}
	return true
}

func cartBuild(spec engine.CartSpec) ([]byte, error) { return cart.Build(spec) }

func controllerButton(i int) controller.Button { return controller.Button(i & 7) }

// ---- environment dimensions ---------------------------------------------------------------------
// The properties about one unit hold whatever state the units they do not mention are in. chooseEnv
// picks, per scenario, the state the CPU is parked in while a scripted bus master works (looping,
// halted, stopped) and the configuration flag DebugLCD; park applies the former.

func chooseEnv(r *engine.Rand, sc *engine.Scenario) {
	if r.Chance(1, 2) {
		sc.SetP("env.park", int64(r.Range(1, 2)))
	}
	if r.Chance(1, 4) {
		sc.SetP("env.debuglcd", 1)
	}
	// audio and video outputs attached or not (Config.DisableAudioOutput / DisableVideoOutput); only
	// honoured by checks that build their machine through build() and do not own those outputs
	if r.Chance(1, 3) {
		sc.SetP("env.audio", 1)
	}
	if r.Chance(1, 3) {
		sc.SetP("env.video", 1)
	}
	chooseTrace(r, sc)
}

// chooseTrace switches the instruction trace on (Config.DebugCPU) in one scenario in twelve, where the
// CPU is only parked: the trace goes to standard output (discarded by the runner) and changes nothing else.
func chooseTrace(r *engine.Rand, sc *engine.Scenario) {
	if r.Chance(1, 12) && sc.Cycles < 2_000_000 {
		sc.SetP("env.debugcpu", 1)
	}
}

// chooseEnvConfig picks the configuration flags only (checks whose histories own all of high RAM).
func chooseEnvConfig(r *engine.Rand, sc *engine.Scenario) {
	if r.Chance(1, 4) {
		sc.SetP("env.debuglcd", 1)
	}
	chooseTrace(r, sc)
}

// park parks the CPU as the scenario's environment says.
func park(sc *engine.Scenario, m *machine.Machine, res *engine.Result) {
	mode := int(sc.P("env.park", 0))
	m.ParkAs(mode)
	switch mode {
	case 1:
		res.Probe("env_cpu_halted")
	case 2:
		res.Probe("env_cpu_stopped")
	}
	if sc.P("env.debuglcd", 0) != 0 {
		res.Probe("env_debug_lcd")
	}
	if sc.P("env.debugcpu", 0) != 0 {
		res.Probe("env_instruction_trace")
	}
}

// ---- activity of the units a property does not talk about -----------------------------------------
// otherUnitTable: writes that start, stop or reprogram a unit. A property about one unit holds whatever
// the guest does to the others meanwhile.
var otherUnitTable = []struct {
	a  uint16
	vs []uint8
}{
	{0xff46, []uint8{0xc0, 0x40, 0x80, 0xd0, 0xfe, 0x00}}, // OAM DMA from work RAM, ROM, VRAM, the echo
	{0xff40, []uint8{0x91, 0x11, 0x00, 0xe3}},             // LCD on/off
	{0xff26, []uint8{0x80, 0x00}},                         // sound power
	{0xff12, []uint8{0xf0, 0x08}}, {0xff14, []uint8{0x87, 0xc0}}, {0xff1a, []uint8{0x80}}, {0xff1e, []uint8{0x87}}, {0xff23, []uint8{0x80}},
	{0xff07, []uint8{0x05, 0x04, 0x07, 0x00}}, {0xff04, []uint8{0x00}}, {0xff05, []uint8{0xfe, 0x00}}, {0xff06, []uint8{0xff, 0x00}},
	{0xff00, []uint8{0x10, 0x20, 0x30, 0x00}}, {0xff01, []uint8{0x55}}, {0xff02, []uint8{0x81}},
	{0xff41, []uint8{0x78, 0x00, 0x40}}, {0xff45, []uint8{0x00, 0x90}}, {0xff43, []uint8{0x07, 0x00}},
}

// addOtherUnitEvents adds 1..8 writes to units for which excl(address) is false, and key events, at
// boundaries no event of the scenario uses (a guest performs one bus operation per cycle).
func addOtherUnitEvents(r *engine.Rand, sc *engine.Scenario, excl func(a uint16) bool) {
	if sc.Cycles < 8 {
		return
	}
	used := map[uint64]bool{}
	for _, e := range sc.Events {
		used[e.At] = true
	}
	span := sc.Cycles
	if span > 200000 {
		span = 200000 // early enough to matter in long runs too
	}
	for i, n := 0, r.Range(1, 8); i < n; i++ {
		at := 1 + uint64(r.Intn(int(span-2)))
		if used[at] {
			continue
		}
		used[at] = true
		if r.Chance(1, 5) {
			sc.Events = append(sc.Events, engine.Event{At: at, K: "key", A: uint16(r.Intn(8)), V: uint8(r.Intn(2)), S: "other"})
			continue
		}
		e := otherUnitTable[r.Intn(len(otherUnitTable))]
		if excl(e.a) {
			continue
		}
		sc.Events = append(sc.Events, engine.Event{At: at, K: "bus_w", A: e.a, V: engine.Pick(r, e.vs), S: "other"})
	}
	sortEvents(sc.Events)
	sc.SetP("env.other", 1)
}

// applyOther performs an event added by addOtherUnitEvents; false: not such an event.
func applyOther(m *machine.Machine, ev *engine.Event, res *engine.Result) bool {
	if ev.S != "other" {
		return false
	}
	switch ev.K {
	case "key":
		m.Key(controllerButton(int(ev.A)), ev.V != 0)
		res.Fault("other_key")
	case "bus_w":
		m.Write(ev.A, ev.V)
		res.Fault("other_unit_write")
		if ev.A == 0xff46 {
			res.Probe("env_dma_started")
		}
	}
	res.Probe("env_other_unit_activity")
	return true
}

func exclTimer(a uint16) bool { return (a >= 0xff04 && a <= 0xff07) || a == 0xff0f }
func exclVideo(a uint16) bool { return (a >= 0xff40 && a <= 0xff4b) || a == 0xff0f }
func exclSound(a uint16) bool { return a >= 0xff10 && a <= 0xff3f }
func exclDMA(a uint16) bool   { return a == 0xff46 || a == 0xff40 }
func exclNone(a uint16) bool  { return false }
