// Package props holds one file per property: scenario generator (workload + fault mix),
// oracle, coverage signature and violation classifier.
package props

import (
	"github.com/scottyw/tetromino/gameboy/controller"

	"fmt"

	"verifsim/cart"
	"verifsim/engine"
	"verifsim/machine"
)

var realComponents = []string{
	"gameboy.New/Run/runFrame/Cleanup (real frame loop)", "cpu", "interrupts", "memory (mapper, MBC1/2/3/5, RTC)",
	"oam (DMA, OAM bug)", "ppu", "audio", "timer", "controller", "serial",
}
var stubComponents = []string{
	"display (simulated window: records frames, close request, key delivery)",
	"speakers (simulated audio consumer owning the two sample channels)",
	"context.Context (SimContext: cancellation + per-cycle yield point)",
	"serial io.Writer (recording writer)", "ROM file (generated image on a scratch dir)",
}

// build constructs the machine for a scenario. A construction panic is a harness fault for
// every property except those that test hostile images.
func build(sc *engine.Scenario, res *engine.Result) *machine.Machine {
	img, err := cart.Build(sc.Cart)
	if err != nil {
		res.Harness = "cart build: " + err.Error()
		return nil
	}
	m, pi := machine.New(img, sc.Cart.Missing, machine.Options{Audio: sc.Audio, Video: sc.Video, Serial: sc.Serial, ChanCap: sc.ChanCap, DebugLCD: sc.P("env.debuglcd", 0) != 0})
	if pi != nil {
		res.Harness = fmt.Sprintf("construction panicked for a well-formed cartridge: %s (%s)", pi.Value, pi.Site)
		return nil
	}
	return m
}

// simpleRom is a 32 KiB ROM-only cartridge whose program is an endless JR loop.
func simpleRom() engine.CartSpec {
	return cart.Simple("rom", []byte{0x18, 0xfe})
}

func hex8(v uint8) string   { return fmt.Sprintf("%02x", v) }
func hex16(v uint16) string { return fmt.Sprintf("%04x", v) }

// applyBus applies the generic bus events. It returns false if the kind is not a bus event.
func applyBus(m *machine.Machine, ev *engine.Event) bool {
	switch ev.K {
	case "bus_w":
		m.Write(ev.A, ev.V)
	case "bus_r":
		ev.N = int64(m.Read(ev.A))
	default:
		return false
	}
	return true
}

func cartBuild(spec engine.CartSpec) ([]byte, error) { return cart.Build(spec) }

func controllerButton(i int) controller.Button { return controller.Button(i & 7) }

// ---- environment dimensions ---------------------------------------------------------------------
// The properties about one unit hold whatever state the units they do not mention are in. chooseEnv
// picks, per scenario, the state the CPU is parked in while a scripted bus master works (looping,
// halted, stopped) and the configuration flag DebugLCD; park applies the former.

func chooseEnv(r *engine.Rand, sc *engine.Scenario) {
	if r.Chance(1, 2) {
		sc.SetP("env.park", int64(r.Range(1, 2)))
	}
	if r.Chance(1, 4) {
		sc.SetP("env.debuglcd", 1)
	}
}

// chooseEnvConfig picks the configuration flags only (checks whose histories own all of high RAM).
func chooseEnvConfig(r *engine.Rand, sc *engine.Scenario) {
	if r.Chance(1, 4) {
		sc.SetP("env.debuglcd", 1)
	}
}

// park parks the CPU as the scenario's environment says.
func park(sc *engine.Scenario, m *machine.Machine, res *engine.Result) {
	mode := int(sc.P("env.park", 0))
	m.ParkAs(mode)
	switch mode {
	case 1:
		res.Probe("env_cpu_halted")
	case 2:
		res.Probe("env_cpu_stopped")
	}
	if sc.P("env.debuglcd", 0) != 0 {
		res.Probe("env_debug_lcd")
	}
}
