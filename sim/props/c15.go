package props

import (
	"fmt"
	"image"

	"verifsim/dmgref"
	"verifsim/engine"
)

// C15 — rendered frames equal the DMG composition of VRAM, OAM and registers.
//
// Simulated dimension (thin, stated honestly): the frame buffer is filled progressively by
// the PPU party and handed to the display party at the frame-loop boundary, so what the
// display sees depends on the phase between the LCD switch-on and the frame loop, on how long
// the scene has been stable, and on what the CPU does meanwhile. The scheduler varies the
// switch-on cycle, the number of frames and the concurrent CPU activity (parked, or a program
// hammering work RAM and the timer). The scene -> pixels map itself is generated input judged
// by a reference compositor.
type c15 struct{}

func init() { engine.Register(c15{}) }

func (c15) ID() string { return "C15" }

func (c15) Budget(tier string) int {
	if tier == "thorough" {
		return 60000
	}
	return 3200
}

func (c15) Describe() engine.Info {
	return engine.Info{
		Rule: "class rescene: after the first scene has been judged it is changed (objects hidden with Y=0 or Y>=160, attributes, scroll, window, palettes, LCDC) during VBlank or with the LCD switched off at an arbitrary cycle, and the frames after the change are judged against the new scene alone; scenario = random scene within the statement's restrictions (LCD and background on, 8x8 objects, at most 10 per line, OAM ordered by X, WX 7..166): random or structured tile data, both tile maps, both addressing modes, SCX/SCY, window on/off at any position, 0..40 objects anywhere incl. partly outside each edge, flips, both object palettes, background priority, arbitrary BGP/OBP0/OBP1; LCD switched on at a random cycle of the frame loop; 2..4 frames; CPU parked or running a program. All 23,040 pixels of the last frame handed to the simulated display are compared. " +
			"Oracle: reference compositor (low bit-plane = first byte; object priority by X then OAM index); the four shades must be four distinct greys of strictly decreasing brightness, consistent over the frame (the RGB values themselves are not prescribed). Signature = (features present: window, objects clipped at top/bottom/left/right, object palette 1, background-priority objects, signed addressing, flips)." +
			" Every frame handed to the display whose lines were all drawn from the current scene is judged (the first whole frame after a restart included); a third of the scenes align the background and window coordinate systems; a quarter get stores to LY and to registers of other units while frames are drawn. One scenario in four stores into the video registers the values they already hold, at any point of the frame. Scene registers are stored in an order chosen by the seed (LCDC among them for changes in the vertical blank); windows below the screen (WY 144-255) come up in the second scene.",
		Assumptions:    []string{"the RGB values of the four shades are not prescribed; they are learnt per frame and must be consistent, grey and strictly darker with the shade number", "mid-frame register changes are outside the statement (the scene is constant)"},
		RequiredProbes: []string{"scene_changed", "objects_hidden_by_y0", "frames_compared", "object_clipped_top", "object_clipped_left", "object_clipped_right", "object_clipped_bottom", "window_visible", "bg_priority_object", "obp1_object", "ly_store_while_drawing", "same_value_store_while_drawing", "first_whole_frame_after_switch_on_judged"},
		RealComponents: realComponents, StubComponents: stubComponents,
	}
}

func (c15) Generate(r *engine.Rand, index int, tier string) *engine.Scenario {
	sc := &engine.Scenario{Cart: simpleRom(), Class: "scene", Video: true}
	sc.SetP("sseed", int64(r.U64()>>1))
	sc.SetP("on_at", int64(r.Intn(17556)))
	sc.SetP("frames", int64(r.Range(2, 4)))
	sc.SetP("cpu", int64(r.Intn(2)))
	if index%3 == 2 {
		sc.Class = "rescene"
		sc.SetP("rescene", int64(r.Range(1, 2)))
		sc.SetP("off_at", int64(r.Range(1, 17556)))
		sc.SetP("off_for", int64(r.Range(1, 3000)))
		if r.Chance(1, 3) {
			// in the vertical blank of the picture (the PPU's frame starts where the LCD was switched on),
			// where games do it
			sc.SetP("off_at", (sc.P("on_at", 0)+int64(r.Range(16425, 17545)))%17556+1)
			// and on again shortly after a frame was handed over, so that the next hand-over falls into
			// the vertical blank of the first frame drawn after the restart (nothing of it redrawn yet)
			sc.SetP("off_for", 17556-sc.P("off_at", 0)+int64(r.Range(1, 1000)))
		}
	}
	sc.Cycles = 5 * 17556
	if index%4 == 1 {
		// stores to the read-only LY register and to registers of other units while frames are drawn:
		// no video register, VRAM or OAM byte changes, so the scene stays what it was
		for i, n := 0, r.Range(2, 12); i < n; i++ {
			a := engine.Pick(r, []uint16{0xff44, 0xff44, 0xff44, 0xff0f, 0xff04, 0xff26})
			sc.Events = append(sc.Events, engine.Event{At: uint64(r.Intn(int(sc.Cycles + 3*17556))), K: "bus_w", A: a, V: r.Byte(), S: "noise"})
		}
		sortEvents(sc.Events)
	}
	if index%4 == 3 {
		// the guest stores into the video registers the values they already hold, at any point of the
		// frame (games rewrite LCDC, the scroll and window registers and the palettes every frame): the
		// scene is what it was
		for i, n := 0, r.Range(2, 16); i < n; i++ {
			a := engine.Pick(r, []uint16{0xff40, 0xff40, 0xff4a, 0xff4a, 0xff4b, 0xff42, 0xff43, 0xff47, 0xff48, 0xff49, 0xff45})
			sc.Events = append(sc.Events, engine.Event{At: uint64(r.Intn(int(sc.Cycles + 3*17556))), K: "bus_w", A: a, S: "same"})
		}
		sortEvents(sc.Events)
	}
	return sc
}

// c15Rescene derives a second scene from a first: some objects hidden (Y=0 or Y>=160), flips,
// palettes and priorities changed, registers changed. Positions of visible objects stay, so
// the order by X and the ten-per-line limit still hold.
func c15Rescene(a *dmgref.Scene, seed uint64) *dmgref.Scene {
	r := engine.NewRand(seed)
	b := *a
	for i := 0; i < 40; i++ {
		if b.OAM[4*i] == 0 {
			continue
		}
		switch r.Intn(6) {
		case 0, 1:
			b.OAM[4*i] = 0
		case 2:
			b.OAM[4*i] = uint8(r.Range(160, 255))
		case 3:
			b.OAM[4*i+3] = r.Byte() & 0xf0
		}
		// objects that touched the last visible lines are the ones a per-line scan may remember
		if y := a.OAM[4*i]; y >= 152 && y < 160 && r.Chance(2, 3) {
			b.OAM[4*i] = 0
		}
	}
	if r.Bool() {
		b.SCX, b.SCY = r.Byte(), r.Byte()
	}
	if r.Bool() {
		b.WX, b.WY = uint8(r.Range(7, 166)), uint8(r.Intn(160))
	}
	if a.WY >= 144 && r.Chance(3, 4) {
		// a window that was below the screen comes up (only its row register is stored anew)
		b.WX, b.WY = a.WX, uint8(r.Intn(140))
		b.LCDC |= 0x20
	}
	if r.Bool() {
		b.BGP, b.OBP0, b.OBP1 = r.Byte(), r.Byte(), r.Byte()
	}
	if r.Bool() {
		b.LCDC = 0x81 | r.Byte()&0x7a
	}
	return &b
}

// c15Scene builds the scene of a scenario.
func c15Scene(seed uint64) *dmgref.Scene {
	r := engine.NewRand(seed)
	s := &dmgref.Scene{}
	// tile data: random, or few distinct solid/striped tiles
	if r.Bool() {
		copy(s.VRAM[:0x1800], r.Bytes(0x1800))
	} else {
		for t := 0; t < 384; t++ {
			a, b := r.Byte(), r.Byte()
			if r.Bool() {
				a, b = []uint8{0x00, 0xff, 0xf0, 0xaa}[r.Intn(4)], []uint8{0x00, 0xff, 0x0f, 0x55}[r.Intn(4)]
			}
			for row := 0; row < 8; row++ {
				s.VRAM[t*16+row*2] = a
				s.VRAM[t*16+row*2+1] = b
				if r.Chance(1, 4) {
					a, b = b, a
				}
			}
		}
	}
	copy(s.VRAM[0x1800:], r.Bytes(0x800))
	s.LCDC = 0x81 | r.Byte()&0x7a // LCD on, BG on, 8x8 objects
	s.SCX, s.SCY = r.Byte(), r.Byte()
	s.WX, s.WY = uint8(r.Range(7, 166)), uint8(r.Intn(160))
	if r.Chance(1, 5) {
		s.WX = uint8(r.Range(158, 166)) // a window only a few pixels wide at the right edge
		s.LCDC |= 0x20
		s.WY = uint8(r.Intn(100))
	}
	if r.Chance(1, 3) {
		// the two coordinate systems aligned or nearly aligned with each other: the background row/column
		// under the window's first row/last column is the same map row/column, one before or one after
		// (what a per-line or per-cell fetch shared between the two layers would get wrong)
		s.SCY = uint8(-int(s.WY) + r.Range(-2, 2))
		if r.Bool() {
			s.SCX = uint8(166 - int(s.WX) + r.Range(-9, 9))
		}
		if r.Chance(1, 2) {
			s.LCDC |= 0x20
			if s.WY > 143 {
				s.WY = uint8(r.Intn(144))
				s.SCY = uint8(-int(s.WY) + r.Range(-2, 2))
			}
		}
	}
	if r.Chance(1, 8) {
		s.WY = uint8(r.Range(144, 255)) // the window switched on but below the screen
		s.LCDC |= 0x20
	}
	s.BGP, s.OBP0, s.OBP1 = r.Byte(), r.Byte(), r.Byte()
	if r.Bool() {
		s.BGP = 0xe4
	}
	// objects: sorted by X, at most 10 per line
	n := r.Intn(41)
	type obj struct{ y, x, t, a uint8 }
	var objs []obj
	var perLine [176]int
	crowd := 0
	crowdY := uint8(r.Range(8, 150))
	edgeCrowds := r.Chance(1, 5) // objects crowding the first lines and the last lines of the frame
	if edgeCrowds && n < 16 {
		n = 16
	}
	if r.Chance(1, 3) {
		crowd = 10 // exactly ten objects share some lines: the most a line may hold
		if n < 10 {
			n = 10
		}
	}
	for i := 0; i < n; i++ {
		var y, x uint8
		if i < crowd {
			y, x = crowdY+uint8(r.Intn(4)), uint8(r.Range(1, 167))
			for l := int(y); l < int(y)+8 && l < 176; l++ {
				perLine[l]++
			}
			objs = append(objs, obj{y, x, r.Byte(), r.Byte() & 0xf0})
			continue
		}
		if edgeCrowds && i < 16 {
			if i < 8 {
				y = uint8(r.Range(9, 16)) // covers line 0
			} else {
				y = uint8(r.Range(152, 159)) // covers line 143
			}
			x = uint8(r.Range(8, 160))
			okLine := true
			for l := int(y); l < int(y)+8 && l < 176; l++ {
				if perLine[l] >= 10 {
					okLine = false
				}
			}
			if okLine {
				for l := int(y); l < int(y)+8 && l < 176; l++ {
					perLine[l]++
				}
				objs = append(objs, obj{y, x, r.Byte(), r.Byte() & 0xf0})
			}
			continue
		}
		switch r.Intn(6) {
		case 0:
			y = uint8(r.Range(1, 16)) // partly above the top edge
		case 1:
			y = uint8(r.Range(145, 159)) // partly below the bottom edge
		default:
			y = uint8(r.Intn(168))
		}
		switch r.Intn(6) {
		case 0:
			x = uint8(r.Range(1, 7)) // partly left of the screen
		case 1:
			x = uint8(r.Range(161, 167)) // partly right of the screen
		default:
			x = uint8(r.Intn(176))
		}
		okLine := true
		for l := int(y); l < int(y)+8 && l < 176; l++ {
			if perLine[l] >= 10 {
				okLine = false
			}
		}
		if !okLine {
			continue
		}
		for l := int(y); l < int(y)+8 && l < 176; l++ {
			perLine[l]++
		}
		objs = append(objs, obj{y, x, r.Byte(), r.Byte() & 0xf0})
	}
	// order by X (stable)
	for i := 1; i < len(objs); i++ {
		for j := i; j > 0 && objs[j].x < objs[j-1].x; j-- {
			objs[j], objs[j-1] = objs[j-1], objs[j]
		}
	}
	for i, o := range objs {
		s.OAM[4*i], s.OAM[4*i+1], s.OAM[4*i+2], s.OAM[4*i+3] = o.y, o.x, o.t, o.a
	}
	return s
}

func (c15) Execute(sc *engine.Scenario) *engine.Result {
	res := &engine.Result{}
	m := build(sc, res)
	if m == nil {
		return res
	}
	s := c15Scene(uint64(sc.P("sseed", 1)))
	m.Write(0xff40, 0x00)
	for a := 0; a < 0x2000; a++ {
		m.Write(0x8000+uint16(a), s.VRAM[a])
	}
	m.OAM.VerifPoke(s.OAM)
	// the registers are stored in an order of the seed's choosing (a guest may store them in any order)
	storeRegs := func(s *dmgref.Scene, seed uint64, withLCDC bool) {
		regs := [][2]uint16{{0xff42, uint16(s.SCY)}, {0xff43, uint16(s.SCX)}, {0xff4a, uint16(s.WY)}, {0xff4b, uint16(s.WX)}, {0xff47, uint16(s.BGP)}, {0xff48, uint16(s.OBP0)}, {0xff49, uint16(s.OBP1)}}
		if withLCDC {
			regs = append(regs, [2]uint16{0xff40, uint16(s.LCDC)}) // LCD on before and after: one more register
		}
		pr := engine.NewRand(seed ^ 0x0bde)
		for i := len(regs) - 1; i > 0; i-- {
			j := pr.Intn(i + 1)
			regs[i], regs[j] = regs[j], regs[i]
		}
		for _, rv := range regs {
			m.Write(rv[0], uint8(rv[1]))
		}
	}
	storeRegs(s, uint64(sc.P("sseed", 1)), false)
	if sc.P("cpu", 0) == 0 {
		m.Park()
	} else {
		// a guest busy with work RAM and the timer (no video state touched)
		prog := []byte{0x21, 0x00, 0xd0, 0x3e, 0x05, 0xe0, 0x07, 0x34, 0x23, 0x7c, 0xfe, 0xd8, 0x20, 0xf9, 0x18, 0xf0}
		for i, b := range prog {
			m.Write(0xc000+uint16(i), b)
		}
		rg := m.CPU.VerifGetRegs()
		rg.PC, rg.SP = 0xc000, 0xdff0
		m.CPU.VerifSetRegs(rg)
		m.IRQ.Disable()
	}
	onAt := uint64(sc.P("on_at", 0))
	frames := int(sc.P("frames", 2))
	var last []uint8
	shown := 0
	// every frame handed to the display is judged once all of its lines have been drawn from the scene
	// that is current (LCD on and scene constant for a whole frame and a line): the first frame after
	// the LCD was switched on, or after the scene changed, included
	var cur *dmgref.Scene
	curTag := ""
	stableSince := uint64(0)
	// after the LCD is switched on all 144 lines have been drawn once 16,416 cycles later; after a change
	// made in the vertical blank with the LCD on, a whole frame and a line later
	stableNeed := uint64(16416 + 8)
	var compare func(s *dmgref.Scene, tag string)
	m.OnFrame = func(f *image.RGBA) bool {
		shown++
		last = append(last[:0], f.Pix...)
		if cur != nil && m.N >= stableSince+stableNeed && res.Violation == nil {
			if m.N < stableSince+2*17556 {
				res.Probe("first_whole_frame_after_switch_on_judged")
			}
			compare(cur, curTag)
			if res.Violation != nil {
				return true
			}
		}
		return false
	}
	nei := 0
	noise := func() {
		for nei < len(sc.Events) && sc.Events[nei].At <= m.N {
			ev := sc.Events[nei]
			nei++
			if ev.S == "same" && ev.A >= 0xff40 && ev.A <= 0xff4b && ev.A != 0xff44 && ev.A != 0xff46 && ev.A != 0xff41 {
				m.Write(ev.A, m.Read(ev.A))
				res.Fault("same_value_store")
				if m.Read(0xff40)&0x80 != 0 && m.Read(0xff44) < 144 {
					res.Probe("same_value_store_while_drawing")
				}
				continue
			}
			if ev.A == 0xff40 || (ev.A >= 0xff42 && ev.A <= 0xff4b && ev.A != 0xff44) || (ev.A >= 0x8000 && ev.A < 0xa000) || (ev.A >= 0xfe00 && ev.A < 0xff00) {
				continue // never anything that is part of the scene (a minimised file may hold anything)
			}
			m.Write(ev.A, ev.V)
			res.Fault("non_video_store")
			if ev.A == 0xff44 && m.Read(0xff40)&0x80 != 0 {
				res.Probe("ly_store_while_drawing")
			}
		}
	}
	m.OnCycle = func() {
		noise()
		if m.N == onAt+1 {
			m.Write(0xff40, s.LCDC)
			res.Fault("lcd_switch_on")
			cur, stableSince = s, m.N
		}
	}
	composed := map[*dmgref.Scene]*[144][160]uint8{}
	compare = func(s *dmgref.Scene, tag string) {
		if composed[s] == nil {
			composed[s] = s.Compose()
		}
		want := composed[s]
		res.Probe("frames_compared")
		{
			dg := engine.NewDigest()
			dg.Bytes(last)
			res.Digest = uint64(dg)
		}
		var shadeRGB [4][4]uint8
		var have [4]bool
		for y := 0; y < 144 && res.Violation == nil; y++ {
			for x := 0; x < 160; x++ {
				p := last[(y*160+x)*4 : (y*160+x)*4+4]
				sh := want[y][x]
				if !have[sh] {
					have[sh] = true
					copy(shadeRGB[sh][:], p)
					continue
				}
				if p[0] != shadeRGB[sh][0] || p[1] != shadeRGB[sh][1] || p[2] != shadeRGB[sh][2] || p[3] != shadeRGB[sh][3] {
					// which shade did the emulator draw?
					drew := -1
					for k := 0; k < 4; k++ {
						if have[k] && p[0] == shadeRGB[k][0] && p[1] == shadeRGB[k][1] && p[2] == shadeRGB[k][2] {
							drew = k
						}
					}
					res.Fail("C15/"+tag+c15Classify(s, x, y), uint64(y*160+x), "pixel (%d,%d) is %v = shade %d, the DMG composition gives shade %d (%v); LCDC=%02x SCX=%d SCY=%d WX=%d WY=%d BGP=%02x OBP0=%02x OBP1=%02x", x, y, p, drew, sh, shadeRGB[sh], s.LCDC, s.SCX, s.SCY, s.WX, s.WY, s.BGP, s.OBP0, s.OBP1)
					break
				}
			}
		}
		if res.Violation == nil {
			prev := 256
			for k := 0; k < 4; k++ {
				if !have[k] {
					continue
				}
				c := shadeRGB[k]
				if c[0] != c[1] || c[1] != c[2] || c[3] != 0xff || int(c[0]) >= prev {
					res.Fail("C15/"+tag+"shades-not-grey-or-not-ordered", uint64(k), "shade %d is drawn as %v: the four shades must be distinct greys, darker with the shade number", k, c)
					break
				}
				prev = int(c[0])
			}
		}
	}
	// the first frame-loop pass contains the switch-on; then `frames` whole passes with a stable scene
	m.RunFrames(1 + frames)
	res.Cycles = m.N
	if res.Violation != nil {
		return res
	}
	if shown < 2 || len(last) != 160*144*4 {
		res.Harness = fmt.Sprintf("display got %d frames of %d bytes", shown, len(last))
		return res
	}
	compare(s, "")
	if mode := sc.P("rescene", 0); mode != 0 && res.Violation == nil {
		// the scene changes (objects hidden, attributes, scroll, palettes, window) in VBlank or
		// with the LCD switched off at an arbitrary point of a frame; the frames after the
		// change are the composition of the new scene only
		b := c15Rescene(s, uint64(sc.P("sseed", 1))^0xb5ce)
		apply := func(withLCDC bool) {
			m.OAM.VerifPoke(b.OAM)
			storeRegs(b, uint64(sc.P("sseed", 1))^0x77, withLCDC)
		}
		done := false
		offAt := m.N + uint64(sc.P("off_at", 0))
		m.OnCycle = func() {
			noise()
			if done {
				return
			}
			switch mode {
			case 1:
				if m.Read(0xff41)&3 == 1 && m.Read(0xff44) >= 145 {
					apply(true)
					done = true
					res.Fault("scene_change_in_vblank")
					cur, curTag, stableSince, stableNeed = b, "after-scene-change/", m.N, 17556+128
				}
			default:
				if m.N == offAt {
					m.Write(0xff40, s.LCDC&0x7f)
					res.Fault("lcd_switch_off")
					cur = nil
				}
				if m.N == offAt+uint64(sc.P("off_for", 1)) {
					apply(false)
					m.Write(0xff40, b.LCDC)
					done = true
					res.Fault("scene_change_with_lcd_off")
					cur, curTag, stableSince, stableNeed = b, "after-scene-change/", m.N, 16416+8
				}
			}
		}
		m.RunFrames(2 + frames)
		res.Cycles = m.N
		if res.Violation != nil {
			return res
		}
		if !done {
			res.Harness = "scene change never happened"
			return res
		}
		res.Probe("scene_changed")
		hidden := 0
		for i := 0; i < 40; i++ {
			if b.OAM[4*i] == 0 && s.OAM[4*i] != 0 {
				hidden++
			}
		}
		if hidden > 0 {
			res.Probe("objects_hidden_by_y0")
		}
		compare(b, "after-scene-change/")
		s = b
	}
	// coverage
	sig := ""
	if s.LCDC&0x20 != 0 && int(s.WY) <= 143 {
		res.Probe("window_visible")
		sig += "W"
	}
	if s.LCDC&0x10 == 0 {
		sig += "S"
	}
	if s.LCDC&0x02 != 0 {
		for i := 0; i < 40; i++ {
			y, x, a := int(s.OAM[4*i]), int(s.OAM[4*i+1]), s.OAM[4*i+3]
			if y == 0 || y >= 160 || x == 0 || x >= 168 {
				continue
			}
			if y < 16 {
				res.Probe("object_clipped_top")
				sig += "t"
			}
			if y > 144 {
				res.Probe("object_clipped_bottom")
				sig += "b"
			}
			if x < 8 {
				res.Probe("object_clipped_left")
				sig += "l"
			}
			if x > 160 {
				res.Probe("object_clipped_right")
				sig += "r"
			}
			if a&0x80 != 0 {
				res.Probe("bg_priority_object")
				sig += "p"
			}
			if a&0x10 != 0 {
				res.Probe("obp1_object")
				sig += "1"
			}
			if a&0x60 != 0 {
				sig += "f"
			}
		}
	}
	res.Sig(dedupLetters(sig))
	return res
}

func dedupLetters(s string) string {
	seen := map[rune]bool{}
	out := ""
	for _, c := range "WStblrp1f" {
		for _, d := range s {
			if c == d && !seen[c] {
				seen[c] = true
				out += string(c)
			}
		}
	}
	if out == "" {
		return "plain"
	}
	return out
}

// c15Classify names what is composed at a mismatching pixel, for the violation class.
func c15Classify(s *dmgref.Scene, x, y int) string {
	if s.LCDC&0x02 != 0 {
		for i := 0; i < 40; i++ {
			oy, ox := int(s.OAM[4*i])-16, int(s.OAM[4*i+1])-8
			if y >= oy && y < oy+8 && x >= ox && x < ox+8 {
				switch {
				case oy < 0:
					return "object-clipped-at-top"
				case s.OAM[4*i+3]&0x10 != 0:
					return "object-palette-1"
				case s.OAM[4*i+3]&0x80 != 0:
					return "object-behind-background"
				}
				return "object"
			}
		}
	}
	if s.LCDC&0x20 != 0 && x >= int(s.WX)-7 && y >= int(s.WY) {
		return "window"
	}
	return "background"
}
