package props

import (
	"fmt"

	"verifsim/dmgref"
	"verifsim/engine"
)

// C14 — VBlank and STAT interrupts are requested exactly at their conditions.
//
// Simulated dimension: histories of LCD on/off switches at arbitrary cycles with a single
// STAT source (or none) and a constant LYC; the observer reads and clears IF bits 0-1 after
// every machine cycle, so every request is attributed to the cycle that raised it. The
// request instants are predicted by the reference line/mode counter.
type c14 struct{}

func init() { engine.Register(c14{}) }

func (c14) PostGenerate(r *engine.Rand, sc *engine.Scenario) {
	chooseEnv(r, sc)
	if r.Chance(1, 3) {
		addOtherUnitEvents(r, sc, exclVideo)
	}
}

func (c14) ID() string { return "C14" }

func (c14) Budget(tier string) int {
	if tier == "thorough" {
		return 60000
	}
	return 2400
}

var c14LYCs = func() []uint8 {
	var v []uint8
	for i := 0; i <= 153; i++ {
		v = append(v, uint8(i))
	}
	return append(v, 154, 200, 255)
}()

func (c14) Describe() engine.Info {
	return engine.Info{
		Rule: "scenario = one STAT source (HBlank / VBlank / OAM / LYC, or none) x LYC (every value 0..153 and 154, 200, 255, enumerated by index for the LYC source) x 3..4 frames, with 0..4 LCD off/on switches at random or mode-boundary cycles and STAT select writes (any sources) while the LCD is off. " +
			"Oracle: after every cycle the set of requests seen (IF bits 0-1, cleared by the observer) equals the set predicted by the reference counter: VBlank once at the start of line 144; HBlank source at each mode-0 entry; VBlank source at line 144; OAM source at the start of lines 0-143 (line 144 and the switch-on instant: either); LYC source at the start of the line LY becomes LYC (switch-on instant with LYC=0: either); nothing while off. Signature = (source, request kind, line class, after-switch-on?)." +
			" Two thirds of the scenarios add video noise (objects, scroll/window/palette writes around mode boundaries, LCDC low-bit rewrites, the constant LYC stored again, also inside its own line). Environment dimensions as C12. Class frames-unacknowledged: nobody clears IF (a set flag stays set, a flag appears only when its request is made, a due request is satisfied by a flag still set); one scenario in four selects another single source (or none) by a STAT store while the LCD is on, also inside the LYC line: the store itself requests nothing. Half of the schedules without random toggles switch the LCD off inside the LYC line and on again. Sources are also selected within two cycles of mode boundaries.",
		Assumptions:    []string{"only single-source configurations are judged (STAT line blocking between sources is outside the statement)", "LYC is constant during a run"},
		RequiredProbes: []string{"request_while_still_flagged", "stat_written_while_off", "vblank_request", "stat_hblank", "stat_vblank", "stat_oam", "stat_lyc", "lcd_switched", "oam_request_line0_after_vblank"},
		RealComponents: realComponents, StubComponents: stubComponents,
		Sweeps: []string{"LYC source x every LYC value (index-enumerated)"},
	}
}

func (c14) Generate(r *engine.Rand, index int, tier string) *engine.Scenario {
	sc := &engine.Scenario{Cart: simpleRom(), Class: "frames"}
	src := index % 5 // 0 none, 1 hblank, 2 vblank, 3 oam, 4 lyc
	lyc := engine.Pick(r, c14LYCs)
	if src == 4 {
		lyc = c14LYCs[(index/5)%len(c14LYCs)]
	}
	stat := uint8(0)
	if src > 0 {
		stat = 1 << uint(2+src)
	}
	sc.SetP("stat", int64(stat)|int64(r.Byte()&0x87))
	sc.SetP("lyc", int64(lyc))
	total := uint64(r.Range(3, 4))*17556 + uint64(r.Intn(500))
	if r.Chance(1, 2) {
		genPPUEvents(r, sc, total, r.Range(1, 4), 0, r.Bool())
	} else if r.Chance(1, 2) {
		// the LCD is switched off inside the line on which LY equals LYC (anywhere in it) and on again
		// later: the new frame starts at line 0 with nothing left over from the old one
		line := int(lyc)
		if line < 1 || line > 153 {
			line = r.Range(1, 153)
		}
		at := uint64(1 + line*114 - 2 + r.Range(1, 113) + 17556*r.Intn(2))
		sc.Events = append(sc.Events, engine.Event{At: at, K: "bus_w", A: 0xff40, V: r.Byte() &^ 0x80})
		sc.Events = append(sc.Events, engine.Event{At: at + uint64(r.Range(1, 600)), K: "bus_w", A: 0xff40, V: r.Byte() | 0x80})
	}
	// STAT select writes while the LCD is off (any sources; the configured one is restored before
	// the LCD is switched on again): nothing may be requested while the LCD is off
	var extra []engine.Event
	off, offAt := false, uint64(0)
	span := func(from, to uint64) {
		if to <= from+3 {
			return
		}
		at := from
		for i, n := 0, r.Range(1, 3); i < n && at+2 < to; i++ {
			at += 1 + uint64(r.Intn(int(to-at-2)))
			extra = append(extra, engine.Event{At: at, K: "bus_w", A: 0xff41, V: engine.Pick(r, []uint8{0x08, 0x10, 0x20, 0x40, 0x78, 0x00, 0x48})})
		}
		extra = append(extra, engine.Event{At: to - 1, K: "bus_w", A: 0xff41, V: uint8(sc.P("stat", 0))})
	}
	for _, e := range sc.Events {
		if e.A != 0xff40 {
			continue
		}
		now := e.V&0x80 == 0
		if now && !off {
			off, offAt = true, e.At
		} else if !now && off {
			off = false
			span(offAt, e.At)
		}
	}
	if off {
		span(offAt, total)
	}
	sc.Events = append(sc.Events, extra...)
	sortEvents(sc.Events)
	if src == 4 && lyc >= 1 && lyc <= 153 && r.Bool() {
		// stores to the read-only LY register inside the very line whose number is LYC
		for f := 0; f < 3; f++ {
			if r.Bool() {
				sc.Events = append(sc.Events, engine.Event{At: uint64(17556*f + int(lyc)*114 - 2 + r.Range(3, 110)), K: "bus_w", A: 0xff44, V: r.Byte(), S: "noise"})
			}
		}
		sortEvents(sc.Events)
	}
	if index%3 != 0 {
		// the request conditions do not depend on scroll, window, palettes, objects, LCDC bits 0-6 or on
		// the (constant) LYC value being stored again
		genVideoNoise(r, sc, total, r.Range(2, 40), [][2]int{{0xff45, int(lyc)}})
	}
	sc.Cycles = total
	if index%4 == 1 {
		for i, n := 0, r.Range(1, 3); i < n; i++ {
			at := uint64(r.Intn(int(total)))
			if r.Bool() {
				// inside (or at the edges of) the line on which LY equals LYC
				at = uint64(1 + int(lyc)*114 - 2 + r.Range(-3, 116) + 17556*r.Intn(int(total/17556)+1))
				if at >= total {
					at = uint64(r.Intn(int(total)))
				}
			} else if r.Bool() {
				// around a mode boundary of some line (power-on grid)
				at = uint64(1 + r.Intn(154*int(total/17556))*114 - 2 + engine.Pick(r, []int{0, 1, 18, 19, 20, 21, 58, 59, 60, 61, 62, 112, 113}))
				if at >= total || at < 1 {
					at = uint64(r.Intn(int(total)))
				}
			}
			sc.Events = append(sc.Events, engine.Event{At: at, K: "bus_w", A: 0xff41, V: engine.Pick(r, []uint8{0x08, 0x10, 0x20, 0x40, 0x40, 0x00}) | r.Byte()&0x87, S: "select"})
		}
		sortEvents(sc.Events)
		for i := 1; i < len(sc.Events); i++ {
			if sc.Events[i].At <= sc.Events[i-1].At {
				sc.Events[i].At = sc.Events[i-1].At + 1
			}
		}
	}
	if index%7 == 3 {
		// nobody acknowledges the requests (a guest that polls LY or STAT instead): flags stay set
		sc.Class = "frames-unacknowledged"
		sc.SetP("no_ack", 1)
	}
	return sc
}

func (c14) Execute(sc *engine.Scenario) *engine.Result {
	res := &engine.Result{}
	m := build(sc, res)
	if m == nil {
		return res
	}
	park(sc, m, res)
	stat := uint8(sc.P("stat", 0))
	lyc := uint8(sc.P("lyc", 0))
	m.Write(0xff41, stat)
	m.Write(0xff45, lyc)
	m.IRQ.WriteIF(0)
	installObjects(m, sc.P("oam_seed", 0))
	var ref dmgref.PPUTiming
	ref.SwitchOn()
	srcName := "none"
	setSrc := func() {
		srcName = "none"
		switch {
		case stat&0x08 != 0:
			srcName = "hblank"
		case stat&0x10 != 0:
			srcName = "vblank"
		case stat&0x20 != 0:
			srcName = "oam"
		case stat&0x40 != 0:
			srcName = "lyc"
		}
	}
	setSrc()
	dg := engine.NewDigest()
	ei := 0
	ok := true
	sinceOn := 0
	realStat := stat
	noAck := sc.P("no_ack", 0) != 0
	held := uint8(0)
	m.OnCycle = func() {
		ev := ref.Tick()
		sinceOn++
		iff := m.IRQ.ReadIF()
		gotV, gotS := iff&1 != 0, iff&2 != 0
		heldV, heldS := false, false
		if noAck {
			// nobody acknowledges: a request flag that is set stays set (a request made again changes
			// nothing), and a flag appears only when its request is made
			if lost := held &^ iff & 3; lost != 0 {
				res.Fail("C14/unacknowledged-request-withdrawn", m.N, "IF went from %02x to %02x although nothing acknowledges requests (reference line %d position %d)", held|0xe0, iff, ref.Line, ref.Pos)
				ok = false
				m.Stop()
				return
			}
			heldV, heldS = held&1 != 0, held&2 != 0
			if heldV && ev.VBlankStart {
				res.Probe("request_while_still_flagged")
			}
			gotV, gotS = gotV && !heldV, gotS && !heldS // newly flagged in this cycle
			held = iff & 3
		} else {
			if gotV {
				m.IRQ.ResetVblank()
			}
			if gotS {
				m.IRQ.ResetStat()
			}
		}
		dg.Byte(iff)
		wantV := ev.VBlankStart
		wantS, mayS := false, false
		why := ""
		switch srcName {
		case "hblank":
			wantS, why = ev.Mode0Entry, "mode-0 entry"
		case "vblank":
			wantS, why = ev.VBlankStart, "start of line 144"
		case "oam":
			wantS, why = ev.LineStart && ref.Line < 144, "start of a line 0-143"
			mayS = ev.VBlankStart || ev.SwitchOnStart
		case "lyc":
			wantS, why = ev.LineStart && int(lyc) == ref.Line, "start of the line LY becomes LYC"
			mayS = ev.SwitchOnStart && lyc == 0
		}
		cls := func(what string) string { return fmt.Sprintf("C14/%s/%s", what, srcName) }
		where := fmt.Sprintf("reference line %d position %d (LCD on=%v, LYC=%d, STAT select=%02x)", ref.Line, ref.Pos, ref.On, lyc, stat&0x78)
		switch {
		case wantV && !gotV && !heldV:
			res.Fail("C14/vblank-missing", m.N, "no VBlank request at the start of line 144; %s", where)
		case !wantV && gotV:
			res.Fail("C14/vblank-unexpected", m.N, "VBlank requested; %s", where)
		case wantS && !gotS && !heldS:
			res.Fail(cls("stat-missing"), m.N, "no STAT request at %s; %s", why, where)
		case gotS && !wantS && !mayS:
			res.Fail(cls("stat-unexpected"), m.N, "STAT requested; %s", where)
		}
		if res.Violation != nil {
			ok = false
			m.Stop()
			return
		}
		lineCls := "visible"
		if ref.Line >= 144 {
			lineCls = "vblank"
		}
		if gotV {
			res.Probe("vblank_request")
		}
		if gotS {
			res.Probe("stat_" + srcName)
			if srcName == "oam" && ref.Line == 0 && sinceOn > 200 {
				res.Probe("oam_request_line0_after_vblank")
			}
			first := ""
			if sinceOn < 17556 {
				first = "/first-frame"
			}
			res.Sig(fmt.Sprintf("%s/stat/%s/line0=%v%s", srcName, lineCls, ref.Line == 0, first))
		}
	}
	for m.N < sc.Cycles && ok {
		for ei < len(sc.Events) && sc.Events[ei].At <= m.N {
			ev := sc.Events[ei]
			ei++
			if applyOther(m, &ev, res) {
				continue
			}
			if ev.A == 0xff40 {
				was, now := ref.On, ev.V&0x80 != 0
				if was && !now {
					ref.SwitchOff()
					res.Probe("lcd_switched")
					res.Sig(fmt.Sprintf("%s/off/mode%d", srcName, ref.Mode()))
				} else if !was && now {
					if realStat != stat {
						m.Write(0xff41, stat) // the source selected last is in force when the LCD comes on
						realStat = stat
					}
					ref.SwitchOn()
					sinceOn = 0
					res.Probe("lcd_switched")
				}
				res.Fault("lcdc_write")
			}
			if ev.A == 0xff41 && ev.S == "select" {
				// another single source (or none) is selected while the LCD is on: requests follow the new
				// source's condition from its next rising edge on; the store itself requests nothing
				stat = ev.V
				realStat = ev.V
				setSrc()
				if ref.On {
					res.Probe("source_selected_while_on")
				}
				m.Write(ev.A, ev.V)
				continue
			}
			if ev.A == 0xff41 {
				if ref.On {
					continue // only while the LCD is off (a minimised schedule may have lost the switch-off)
				}
				res.Probe("stat_written_while_off")
				realStat = ev.V
			}
			if ev.A == 0xff45 {
				ev.V = lyc // LYC is constant: the same value is stored again
				if ref.On && ref.Line == int(lyc) {
					res.Probe("lyc_stored_again_inside_its_line")
				}
			}
			m.Write(ev.A, ev.V)
		}
		next := sc.Cycles
		if ei < len(sc.Events) && sc.Events[ei].At < next {
			next = sc.Events[ei].At
		}
		if next <= m.N {
			next = m.N + 1
		}
		m.RunCycles(next - m.N)
	}
	res.Cycles = m.N
	res.Digest = uint64(dg)
	return res
}
