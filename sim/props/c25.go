package props

import (
	"encoding/json"
	"fmt"
	"os"
	"os/exec"
	"path/filepath"
	"regexp"
	"strings"
	"sync"

	"verifsim/engine"
	"verifsim/machine"
)

// C25 — emulator instances in one process are independent.
//
// Simulated dimension (central): interleavings of several instances. The scheduler owns the
// only "token": it advances one instance for a slice of machine cycles (down to a single
// cycle), then another, creates further instances while others are mid-run, and so on; the
// interleaving is an explicit list in the scenario and replays exactly. Every instance's
// trace (checkpoint digests at its own cycle counts and final state digest) must equal the
// trace of the same workload run alone.
type c25 struct{}

func init() { engine.Register(c25{}) }

func (c25) ID() string { return "C25" }

func (c25) Budget(tier string) int {
	if tier == "thorough" {
		return 12000
	}
	return 600
}

func (c25) Describe() engine.Info {
	return engine.Info{
		Rule: "scenario = 2..3 workloads (test ROMs, generated programs, random scenes, random code; different cartridges and configurations) + creation order + an explicit interleaving schedule of slices (1..3 cycles, a few hundred cycles, whole frames; some instances created while others are mid-run). " +
			"Oracle: each instance's checkpoint digests (every 2048 of its own cycles) and final state digest equal those of its solo run in the same process. Signature = (workload kinds, slice granularity class, created-mid-run). " +
			"Class concurrent (one scenario in ten): 2..4 instances without simulated devices are constructed and run by goroutines released together inside a race-detector build of the simulator (child process); each trace must equal its solo trace and no data race may be reported in emulator frames. Workloads mix DebugLCD configurations and MBC3 cartridges that use their clock registers. Class interleave-crowd: 9..13 instances alive at once; class interleave-same-shape: all instances carry cartridges of one shape (8 MiB MBC5 among them); every checkpoint reads the ROM windows over the bus. The trace contains every bus read and write of each CPU; clock cartridges for all instances of a scenario with single-cycle slices throughout; instances without outputs are released a second time. One scenario in three uses one ROM file name for all instances; far pages read straight after construction must be those of the image given; timer-less MBC3 shapes.",
		Assumptions: []string{
			"interleaving is cooperative and decided by the seed, except in class concurrent, where real threads run unscheduled: for code that shares nothing neither of its verdicts (digest difference, happens-before race report) depends on the interleaving, so it cannot alarm on a correct tree",
			"a panic of the emulator ends that instance's run; it must occur at the same cycle as in the solo run",
		},
		RequiredProbes: []string{"blocked_in_serial_writer", "single_cycle_slices", "created_mid_run", "instances", "concurrent_runs"},
		RealComponents: realComponents, StubComponents: stubComponents,
	}
}

// FlakyClass: what the race detector reports, and digests of truly concurrent runs, depend on how the
// goroutines of the child process happened to overlap.
func (c25) FlakyClass(class string) (int, bool) {
	if strings.HasPrefix(class, "C25/data-race") || strings.HasPrefix(class, "C25/concurrent-differs-from-solo") {
		return 6, true
	}
	return 0, false
}

func (c25) Generate(r *engine.Rand, index int, tier string) *engine.Scenario {
	if index%10 == 9 {
		// truly concurrent construction and execution (no simulated devices attached, so the instances
		// share nothing with the harness), run by a race-detector build in a child process
		sc := &engine.Scenario{Class: "concurrent"}
		n := r.Range(2, 4)
		sc.SetP("n", int64(n))
		for i := 0; i < n; i++ {
			w := randomWorkload(r)
			w.Audio, w.Video = false, false
			w.Debug = r.Chance(1, 3)
			w.store(sc, fmt.Sprintf("i%d.", i))
		}
		sc.Cycles = uint64(r.Range(1, 3)) * 17556
		return sc
	}
	sc := &engine.Scenario{Class: "interleave"}
	n := 2
	if r.Chance(1, 3) {
		n = 3
	}
	shape := 0
	switch {
	case index%50 == 13:
		// a crowd: a dozen instances alive at once
		sc.Class = "interleave-crowd"
		n = r.Range(9, 13)
	case index%25 == 3:
		// all instances carry cartridges of one shape (the largest images a controller takes among them)
		sc.Class = "interleave-same-shape"
		shape = 1 + r.Intn(len(freeShapes))
		if r.Bool() {
			shape = 1 + r.Intn(2)
		} else if r.Bool() {
			shape = freeShapeClock + r.Intn(4) // cartridges with the clock, programs that latch and read it
		}
	}
	sc.SetP("n", int64(n))
	if r.Chance(1, 3) {
		sc.SetP("samepath", 1) // every instance's ROM file has the same name (contents differ)
	}
	for i := 0; i < n; i++ {
		w := randomWorkload(r)
		w.Shape = shape
		if r.Chance(1, 3) {
			w.Kind = "scene" // sprites, audio: lots of shared-looking state
			w.Video = true
		}
		w.Debug = r.Chance(1, 4) // instances of different configurations
		if shape >= freeShapeClock {
			w.Kind = "prog"
		}
		w.store(sc, fmt.Sprintf("i%d.", i))
	}
	total := uint64(r.Range(1, 4)) * 17556
	gran := r.Intn(3)
	if n > 3 {
		total = 17556
		gran = r.Range(1, 2)
	}
	if shape >= freeShapeClock {
		gran = 0
	}
	sc.Cycles = total
	sc.SetP("gran", int64(gran))
	if r.Bool() {
		// slow serial consumers: an instance blocks inside its writer, the others run meanwhile
		sc.SetP("slow_serial", 1)
	}
	// schedule: events "spawn" (A=instance) and "step" (A=instance, N=cycles)
	created := make([]bool, n)
	left := make([]uint64, n)
	for i := range left {
		left[i] = total
	}
	order := r.Intn(n)
	sc.Events = append(sc.Events, engine.Event{K: "spawn", A: uint16(order)})
	created[order] = true
	for {
		// maybe create another instance now
		for i := 0; i < n; i++ {
			if !created[i] && r.Chance(1, 3) {
				sc.Events = append(sc.Events, engine.Event{K: "spawn", A: uint16(i)})
				created[i] = true
			}
		}
		var cand []int
		for i := 0; i < n; i++ {
			if created[i] && left[i] > 0 {
				cand = append(cand, i)
			}
		}
		if len(cand) == 0 {
			all := true
			for i := 0; i < n; i++ {
				if !created[i] {
					sc.Events = append(sc.Events, engine.Event{K: "spawn", A: uint16(i)})
					created[i] = true
					all = false
				}
			}
			if all {
				break
			}
			continue
		}
		i := cand[r.Intn(len(cand))]
		var k uint64
		switch gran {
		case 0:
			k = uint64(r.Range(1, 3))
			if len(sc.Events) > 6000 && (shape < freeShapeClock || len(sc.Events) > 40000) {
				k = uint64(r.Range(100, 4000))
			}
		case 1:
			k = uint64(r.Range(50, 900))
		default:
			k = 17556
		}
		if k > left[i] {
			k = left[i]
		}
		left[i] -= k
		sc.Events = append(sc.Events, engine.Event{K: "step", A: uint16(i), N: int64(k)})
	}
	return sc
}

type c25inst struct {
	m    *machine.Machine
	t    *tracer
	ok   bool   // still running (no panic)
	debt uint64 // cycles of earlier slices not yet run because the instance blocked in its serial writer
}

func c25new(sc *engine.Scenario, i int, res *engine.Result) *c25inst {
	w := loadWorkload(sc, fmt.Sprintf("i%d.", i))
	w.Prop = "C25"
	m := newFree(w, 0, res)
	if m == nil {
		return nil
	}
	in := &c25inst{m: m, t: newTracer(m, 2048), ok: true}
	m.OnCycle = in.t.cycle
	m.SlowSerial = sc.P("slow_serial", 0) != 0
	m.StartCo(int(sc.Cycles / 17556))
	return in
}

// step lets the instance run k more cycles. If it blocks inside its serial writer (slow
// consumer) the slice ends there and the rest is owed to the instance's next slice; a solo run
// resumes it at once.
func (in *c25inst) step(k uint64, res *engine.Result, solo bool) {
	if !in.ok || in.m.StoppedOnUndefined {
		return
	}
	target := in.m.N + k + in.debt
	in.debt = 0
	for in.m.N < target || in.m.InWriter() {
		if in.m.N >= target {
			target = in.m.N + 1 // blocked in the writer with nothing left: finish the cycle in flight
		}
		if in.m.Resume(target - in.m.N) {
			in.ok = false
			if pi := in.m.CoPanic(); pi != nil {
				if !pi.Emulator {
					res.Harness = "harness panic: " + pi.Value + "\n" + pi.Stack
					return
				}
				in.t.dg.Str("panic:" + pi.Site)
				in.t.dg.U64(in.m.N)
			}
			return
		}
		if in.m.InWriter() {
			res.Probe("blocked_in_serial_writer")
			if !solo {
				in.debt = target - in.m.N
				res.Fault("serial_writer_stall")
				return
			}
		}
	}
}

// ---- class concurrent -----------------------------------------------------------------------

type concReport struct {
	Solo    [][]uint64 `json:"solo"`
	Conc    [][]uint64 `json:"conc"`
	Harness string     `json:"harness,omitempty"`
}

func concRun(sc *engine.Scenario, i int) ([]uint64, string) {
	res := &engine.Result{}
	w := loadWorkload(sc, fmt.Sprintf("i%d.", i))
	m := newFree(w, 0, res)
	if m == nil {
		return nil, res.Harness
	}
	t := newTracer(m, 2048)
	m.OnCycle = t.cycle
	if pi := machine.Protect(func() { m.RunCycles(sc.Cycles) }); pi != nil {
		if !pi.Emulator {
			return nil, "harness panic: " + pi.Value + "\n" + pi.Stack
		}
		t.dg.Str("panic:" + pi.Site)
		t.dg.U64(m.N)
	}
	t.finish()
	return t.points, ""
}

// ConcurrentJSON is the child-process side of class concurrent (run by the race-detector build):
// every workload alone, then all of them constructed and run at the same time by as many
// goroutines released together. It prints the checkpoint digests of both.
func ConcurrentJSON(path string) int {
	sc, err := engine.LoadScenario(path)
	if err != nil {
		fmt.Printf("{\"harness\":%q}\n", err.Error())
		return 2
	}
	n := int(sc.P("n", 2))
	rep := concReport{Solo: make([][]uint64, n), Conc: make([][]uint64, n)}
	machine.ScratchDir()
	for i := 0; i < n; i++ {
		var h string
		if rep.Solo[i], h = concRun(sc, i); h != "" {
			rep.Harness = h
		}
	}
	var wg sync.WaitGroup
	var mu sync.Mutex
	start := make(chan struct{})
	for i := 0; i < n; i++ {
		wg.Add(1)
		go func(i int) {
			defer wg.Done()
			<-start
			pts, h := concRun(sc, i)
			mu.Lock()
			rep.Conc[i] = pts
			if h != "" {
				rep.Harness = h
			}
			mu.Unlock()
		}(i)
	}
	close(start)
	wg.Wait()
	b, _ := json.Marshal(rep)
	fmt.Println(string(b))
	return 0
}

var raceFrame = regexp.MustCompile(`github\.com/scottyw/tetromino/([A-Za-z0-9_/.()*]+)`)

func executeConcurrent(sc *engine.Scenario) *engine.Result {
	res := &engine.Result{}
	exe := os.Getenv("VERIF_RACE_BIN")
	if exe == "" {
		self, err := os.Executable()
		if err != nil {
			res.Harness = err.Error()
			return res
		}
		exe = self + "-race"
	}
	if _, err := os.Stat(exe); err != nil {
		res.Harness = "race-detector build of the simulator not found at " + exe
		return res
	}
	dir, err := os.MkdirTemp(machine.ScratchDir(), "conc-")
	if err != nil {
		res.Harness = err.Error()
		return res
	}
	defer os.RemoveAll(dir)
	file := filepath.Join(dir, "scenario.json")
	if err := os.WriteFile(file, sc.JSON(), 0o600); err != nil {
		res.Harness = err.Error()
		return res
	}
	cmd := exec.Command(exe, "-concurrent", file)
	cmd.Env = append(os.Environ(), "GORACE=log_path="+filepath.Join(dir, "race")+" halt_on_error=0 exitcode=0 history_size=3", "GOMAXPROCS=4")
	out, err := cmd.Output()
	var rep concReport
	if err != nil || json.Unmarshal(out, &rep) != nil {
		res.Harness = fmt.Sprintf("concurrent child failed: %v: %.300s", err, out)
		return res
	}
	if rep.Harness != "" {
		res.Harness = rep.Harness
		return res
	}
	n := int(sc.P("n", 2))
	res.ProbeN("instances", n)
	res.Probe("concurrent_runs")
	res.Fault("concurrent_construction")
	kinds := ""
	for i := 0; i < n; i++ {
		w := loadWorkload(sc, fmt.Sprintf("i%d.", i))
		kinds += w.Kind + "+"
		if d := diffPoint(rep.Conc[i], rep.Solo[i]); d >= 0 {
			res.Fail("C25/concurrent-differs-from-solo/"+w.Kind, uint64(d)*2048, "instance %d (%s): checkpoint %d differs from its solo run when %d instances are constructed and run concurrently", i, w.Kind, d, n)
			return res
		}
		res.Cycles += sc.Cycles
		if k := len(rep.Solo[i]); k > 0 {
			res.Digest ^= rep.Solo[i][k-1] + uint64(i)
		}
	}
	logs, _ := filepath.Glob(filepath.Join(dir, "race.*"))
	for _, lf := range logs {
		b, _ := os.ReadFile(lf)
		txt := string(b)
		if !strings.Contains(txt, "DATA RACE") {
			continue
		}
		site := "unknown"
		if mm := raceFrame.FindStringSubmatch(txt); mm != nil {
			site = mm[1]
		} else {
			// a race that does not involve emulator code is the harness's own
			res.Harness = fmt.Sprintf("data race outside emulator code: %.600s", txt)
			return res
		}
		first := txt
		if i := strings.Index(first, "\n\n"); i > 0 {
			first = first[:i]
		}
		if len(first) > 900 {
			first = first[:900]
		}
		res.Fail("C25/data-race/"+site, 0, "instances constructed and run concurrently access the same memory without synchronisation (one instance reads or changes state another uses): %s", strings.ReplaceAll(first, "\n", " | "))
		return res
	}
	res.Sig(fmt.Sprintf("%sconcurrent/n=%d", kinds, n))
	return res
}

func (c25) Execute(sc *engine.Scenario) *engine.Result {
	if sc.Class == "concurrent" {
		return executeConcurrent(sc)
	}
	res := &engine.Result{}
	n := int(sc.P("n", 2))
	// solo runs, one after the other
	solo := make([][]uint64, n)
	for i := 0; i < n; i++ {
		in := c25new(sc, i, res)
		if in == nil {
			return res
		}
		in.step(sc.Cycles, res, true)
		if res.Harness != "" {
			return res
		}
		in.m.Abandon()
		in.t.finish()
		solo[i] = in.t.points
		in.m.GB.Cleanup() // every instance is released the way Run releases it
		if w := loadWorkload(sc, fmt.Sprintf("i%d.", i)); !w.Audio && !w.Video {
			// ... and once more by its owner (with no outputs attached a second release has nothing to do;
			// whether it is allowed at all is not this property's business, so a refusal is not judged)
			machine.Protect(func() { in.m.GB.Cleanup() })
			res.Probe("instance_released_twice")
		}
	}
	// interleaved run
	insts := make([]*c25inst, n)
	midRun := false
	for _, ev := range sc.Events {
		switch ev.K {
		case "spawn":
			for _, o := range insts {
				if o != nil && o.m.N > 0 {
					midRun = true
				}
			}
			insts[ev.A] = c25new(sc, int(ev.A), res)
			if insts[ev.A] == nil {
				return res
			}
			res.Probe("instances")
		case "step":
			in := insts[ev.A]
			if in == nil {
				continue // its spawn event was removed by the minimiser
			}
			in.step(uint64(ev.N), res, false)
			if res.Harness != "" {
				return res
			}
			if ev.N <= 3 {
				res.Probe("single_cycle_slices")
			}
			res.Fault("instance_switch")
		}
	}
	if midRun {
		res.Probe("created_mid_run")
	}
	// instances still blocked in their serial writer, or owed cycles, run to their end
	for _, in := range insts {
		if in != nil && (in.debt > 0 || in.m.InWriter()) {
			in.step(0, res, true)
			if res.Harness != "" {
				return res
			}
		}
	}
	kinds := ""
	for i, in := range insts {
		w := loadWorkload(sc, fmt.Sprintf("i%d.", i))
		kinds += w.Kind + "+"
		if in == nil {
			continue
		}
		full := in.m.N == sc.Cycles || !in.ok || in.m.StoppedOnUndefined
		in.m.Abandon()
		in.t.finish()
		pts := in.t.points
		cmp := solo[i]
		if !full {
			// the minimiser may have dropped steps: compare the common prefix of checkpoints only
			k := int(in.m.N / 2048)
			if k < len(pts) {
				pts = pts[:k]
			}
			if k < len(cmp) {
				cmp = cmp[:k]
			}
		}
		if d := diffPoint(pts, cmp); d >= 0 {
			name := w.Kind
			if w.Kind == "rom" {
				name = shortROM(w.ROM)
			}
			res.Fail("C25/instance-differs-from-solo/"+w.Kind, uint64(d)*2048, "instance %d (%s): checkpoint %d (its cycle %d) differs from its solo run when interleaved with %d other instance(s)", i, name, d, d*2048, n-1)
			return res
		}
		res.Cycles += in.m.N
		if len(pts) > 0 {
			res.Digest ^= pts[len(pts)-1] + uint64(i)
		}
		in.m.GB.Cleanup() // every instance is released the way Run releases it
	}
	res.Sig(fmt.Sprintf("%sgran=%d/mid=%v", kinds, sc.P("gran", 0), midRun))
	return res
}
