package props

import "verifsim/engine"

// C02 — every instruction takes its documented number of machine cycles.
//
// Simulated dimension: the simulated clock itself. The number of per-cycle callbacks of the
// real frame loop between two instruction boundaries is compared with the documented length,
// taken/not-taken chosen from the flags at that moment.
type c02 struct{}

func init() { engine.Register(c02{}) }

func (c02) ID() string { return "C02" }

func (c02) Budget(tier string) int {
	if tier == "thorough" {
		return 600000
	}
	return 30000
}

func (c02) Describe() engine.Info {
	return engine.Info{
		Rule: "same lock-step executions as C01, plus directed programs that run every opcode (conditional ones with all 16 flag nibbles, so both outcomes of every condition occur). Oracle: cycles between instruction boundaries = documented length of the reference SM83 (taken/not-taken from the flags at decision time); the repository's own cycle table is not consulted. " +
			"Signature = (opcode, taken/not-taken or length, interrupt line rose mid-instruction)." +
			" Classes program-dma (OAM DMA transfers started by the scheduler while the program runs) and program-frame-boundary (the program crosses the boundary between two passes of the frame loop); a stray halted state after an instruction other than HALT counts. Programs occasionally load the verdict register patterns of the repository's test ROMs (3,5,8,13,21,34 / 0x42 six times) and execute marker self-loads (LD B,B ...): one cycle each like any load. Class idiom-loops: the wait loops guests are made of (LY / STAT / DIV polls, counted delays) with the LCD on; key events are delivered while programs run.",
		Assumptions: []string{
			"the idle period of HALT, the wake-up from it and the interrupt dispatch lengths are judged by C04/C05, not here (a HALT that does not idle is: class halt-no-idle)",
			"instruction-stream fetch timing is not observable at cycle boundaries and not judged",
		},
		RequiredProbes: []string{"instructions", "cond_taken", "cond_not_taken", "dma_started_mid_instruction"},
		RealComponents: realComponents, StubComponents: stubComponents,
		Sweeps: []string{"every lock-step opcode x 16 flag nibbles (class flags16)"},
	}
}

func (c02) Generate(r *engine.Rand, index int, tier string) *engine.Scenario {
	sc := &engine.Scenario{}
	if index%3 == 0 {
		// directed: one opcode under all 16 flag nibbles, with random history in between
		sc.Class = "flags16"
		ops := lockstepOps
		op := ops[(index/3)%len(ops)]
		cb := (index/3)/len(ops)%2 == 1
		g := &progGen{r: r, base: lsCodeWRAM}
		g.emitStackSetup()
		for nib := 0; nib < 16; nib++ {
			// load F through the stack: LD BC,nib<<4 ; PUSH BC ; POP AF
			g.emitStackSetup()
			g.emit16(0x01, uint16(nib)<<4|uint16(r.Byte())<<8)
			g.emit(0xc5, 0xf1)
			if cb {
				g.emitUnit(r.Byte(), true, false)
			} else {
				g.emitUnit(op, false, false)
			}
		}
		g.finish()
		lsScenario(sc, r, g)
		sc.Cycles = uint64(len(g.code))*4 + 64
		return sc
	}
	if index%3 == 1 {
		// directed: every jump/call/return kind (both outcomes) directly followed by the tested
		// instruction, so that no end-of-instruction state of one instruction can shorten or
		// lengthen the next (memory operands of CB operations included)
		sc.Class = "pairs"
		g := &progGen{r: r, base: lsCodeWRAM}
		g.emitStackSetup()
		for i, n := 0, r.Range(6, 24); i < n; i++ {
			// flags through the stack so that both outcomes of the condition occur
			g.emitStackSetup()
			g.emit16(0x01, uint16(r.Intn(16))<<4|uint16(r.Byte())<<8)
			g.emit(0xc5, 0xf1)
			prev := pairPrev[(index/3+i)%len(pairPrev)]
			for {
				var ok bool
				switch r.Intn(3) {
				case 0:
					ok = g.emitPair(prev, r.Byte()&0xf8|6, true) // CB operation on (HL)
				case 1:
					ok = g.emitPair(prev, r.Byte(), true)
				default:
					ok = g.emitPair(prev, engine.Pick(r, lockstepOps), false)
				}
				if ok {
					break
				}
			}
		}
		g.finish()
		lsScenario(sc, r, g)
		sc.SetP("marks", int64(len(g.marks)))
		sc.Cycles = uint64(len(g.code))*4 + 64
		return sc
	}
	if index%12 == 2 {
		// HALT that does not idle (master enable clear, an enabled request already pending)
		// occupies one machine cycle like any other single-byte instruction
		sc.Class = "halt-no-idle"
		g := &progGen{r: r, base: lsCodeWRAM}
		g.emitStackSetup()
		for i, n := 0, r.Range(1, 4); i < n; i++ {
			for j, k := 0, r.Intn(3); j < k; j++ {
				g.emit(engine.Pick(r, c05SafeOps))
			}
			g.emit(0x76)
			g.emit(engine.Pick(r, c05SafeOps))
		}
		g.emit(0x00, 0x00)
		g.finish()
		lsScenario(sc, r, g)
		line := uint(r.Intn(5))
		sc.SetP("ie", int64(1<<line)|int64(r.Byte()&0xe0))
		sc.SetP("if", int64(1<<line))
		sc.Cycles = uint64(len(g.code))*4 + 64
		return sc
	}
	if index%30 == 14 {
		// the wait loops guests are made of, with the LCD on: poll LY until a line is reached, poll STAT
		// for a mode, count DIV up, a counted delay - every round takes its documented cycles and the
		// instruction behind the loop starts on the loop's own grid
		sc.Class = "idiom-loops"
		g := &progGen{r: r, base: lsCodeWRAM}
		if r.Chance(1, 3) {
			g.base = lsCodeROM
		}
		g.emitStackSetup()
		for i, n := 0, r.Range(1, 3); i < n; i++ {
			g.filler(r.Intn(8))
			switch r.Intn(7) {
			case 5:
				// copy loop: LD A,(HL+) ; LD (DE),A ; INC DE ; DEC BC ; LD A,B ; OR C ; JR NZ,-8
				g.emit16(0x21, 0xd000+uint16(r.Intn(0x400)))
				g.emit16(0x11, 0xd800+uint16(r.Intn(0x400)))
				g.emit16(0x01, uint16(r.Range(1, 40)))
				g.emit(0x2a, 0x12, 0x13, 0x0b, 0x78, 0xb1, 0x20, 0xf8)
			case 6:
				// wait until video memory may be written: LDH A,(STAT) ; AND 2 ; JR NZ,-6 ; then a store to VRAM
				g.emit(0xf0, 0x41, 0xe6, 0x02, 0x20, 0xfa)
				g.emit16(0x21, 0x8000+uint16(r.Intn(0x1800)))
				g.emit(0x36, r.Byte())
			case 0, 1:
				g.emit(0xf0, 0x44, 0xfe, uint8(r.Range(1, 4)+i*4), 0x20, 0xfa) // LDH A,(LY) ; CP n ; JR NZ,-6
			case 2:
				g.emit(0xf0, 0x41, 0xe6, 0x03, 0xfe, uint8(r.Intn(4)), 0x20, 0xf8) // LDH A,(STAT) ; AND 3 ; CP m ; JR NZ,-8
			case 3:
				g.emit(0xf0, 0x04, 0xfe, uint8(r.Range(2, 9)), 0x38, 0xfa) // LDH A,(DIV) ; CP n ; JR C,-6
			default:
				g.emit(0x06, uint8(r.Range(2, 40)), 0x05, 0x20, 0xfd) // LD B,n ; DEC B ; JR NZ,-3
			}
			g.emit(engine.Pick(r, []uint8{0x00, 0x3c, 0x04, 0x0c, 0x2f}))
		}
		g.emit(0x00, 0x00)
		g.finish()
		lsScenario(sc, r, g)
		sc.SetP("keep_lcd", 1)
		sc.Cycles = uint64(len(g.code))*4 + 14*114 + 2600
		return sc
	}
	sc.Class = "program"
	genCPUProgram(r, sc, r.Range(1, 40))
	if index%4 == 3 {
		// the same programs while OAM DMA transfers are in flight: instruction lengths do not depend on
		// what the other bus parties do (only lengths are judged here, so the data the program reads
		// from OAM meanwhile is irrelevant)
		sc.Class = "program-dma"
		for at := uint64(r.Intn(40)); at < sc.Cycles; at += uint64(r.Range(20, 400)) {
			sc.Events = append(sc.Events, engine.Event{At: at, K: "dma", V: engine.Pick(r, []uint8{0x00, 0x3f, 0x80, 0x9f, 0xc0, 0xc1, 0xd0, 0xdf, 0xe0, 0xf1, r.Byte() % 0xf2})})
		}
		sortEvents(sc.Events)
	}
	if index%8 == 7 {
		// the program runs across the boundary between two passes of the frame loop
		sc.Class = "program-frame-boundary"
		pr := 17556 - r.Intn(int(sc.Cycles/3)+1)
		sc.SetP("preroll", int64(pr))
		for i := range sc.Events {
			sc.Events[i].At += uint64(pr)
		}
		sc.Cycles += uint64(pr)
	}
	return sc
}

// "halted": an instruction other than HALT that leaves the CPU idling stops the instruction stream: the
// time of everything after it is no longer spent on instructions
var c02Focus = map[string]bool{"cycles": true, "stuck": true, "halted": true}

func (c02) Execute(sc *engine.Scenario) *engine.Result {
	focus := c02Focus
	if sc.Class == "halt-no-idle" {
		// an idle cycle where none is documented is extra time spent on the HALT
		focus = map[string]bool{"cycles": true, "stuck": true, "halted": true}
	}
	res := executeCPU("C02", sc, focus)
	return res
}
