package props

import (
	"fmt"

	"verifsim/dmgref"
	"verifsim/engine"
)

// C19 — channel status bits and length counters behave as on a DMG.
//
// Simulated dimension (central): triggers, length writes, DAC and power toggles placed at
// every phase of the 512 Hz frame sequencer, over runs that span several emulated seconds.
// The phase of the sequencer grid is not assumed from the implementation: each run first
// calibrates it by observation (a channel triggered with one length clock left turns off at
// the next length clock), after which the reference model steps its own sequencer every
// 2048 machine cycles and NR52 is compared after every machine cycle.
type c19 struct{}

func init() { engine.Register(c19{}) }

func (c19) PostGenerate(r *engine.Rand, sc *engine.Scenario) {
	chooseEnv(r, sc)
	if r.Chance(1, 3) {
		addOtherUnitEvents(r, sc, exclSound)
	}
}

func (c19) ID() string { return "C19" }

func (c19) Budget(tier string) int {
	if tier == "thorough" {
		return 20000
	}
	return 1280
}

func (c19) Describe() engine.Info {
	return engine.Info{
		Rule: "scenario = calibration, then 10..150 operations over {NRx1 length write, NRx2/NR30 DAC on/off, NRx4 with/without trigger and length enable, NR10 sweep settings (mostly none; some that overflow at the trigger or after a few sweep clocks), NR13/NR14 frequency, NR52 power off/on} at times uniform modulo the 2048-cycle sequencer grid or within +-2 cycles of a grid point; classes short (tens of thousands of cycles) and long (1.1-3.3 million cycles, crossing emulated-second boundaries). " +
			"Oracle: reference status/length/sweep model (blargg's Game Boy Sound Operation): status on only by trigger with DAC on and no sweep overflow; off by DAC off, power off, sweep overflow, length expiry after exactly 64-t (256-t) length clocks incl. the extra clock when length is enabled, or a zero counter is reloaded by a trigger, in the first half of a length period; NR52 bits 0-3 compared after every machine cycle. Signature = (operation, channel, sequencer step parity at the operation, distance class to the grid point, power)." +
			" Environment dimensions as C12. Class sweep-on-step: channel 1 with an adding sweep started within two cycles of a frame-sequencer step at a frequency that overflows at a later sweep clock, then left alone. Class sweep-shadow: frequency registers and NR10 rewritten after the trigger, then left alone for 9..40 sweep clocks. Class expired-then-power-cycle: a note plays out, power cycle, length enable flips and an NRx4-only start.",
		Assumptions:    []string{"the sequencer grid phase is calibrated per run from the emulator's own first length clock; afterwards strict 2048-cycle periodicity is required, also across power toggles (power-on only resets the step index)", "envelope and amplitudes are not part of this property"},
		RequiredProbes: []string{"calibrated", "length_expiry", "extra_clock_on_enable", "trigger_reload_in_first_half", "power_toggle", "sweep_overflow", "second_boundary_crossed", "op_within_2_cycles_of_step"},
		RealComponents: realComponents, StubComponents: stubComponents,
	}
}

func (c19) Generate(r *engine.Rand, index int, tier string) *engine.Scenario {
	sc := &engine.Scenario{Cart: simpleRom()}
	if index%16 == 5 {
		// directed: a counter freshly written to its maximum (not reloaded from zero) and triggered
		// in the first or second half of a length period, then left alone until it expires
		sc.Class = "full-length"
		ch := r.Intn(4)
		nrx1 := []uint16{0xff11, 0xff16, 0xff1b, 0xff20}[ch]
		nrx2 := []uint16{0xff12, 0xff17, 0xff1a, 0xff21}[ch]
		nrx4 := []uint16{0xff14, 0xff19, 0xff1e, 0xff23}[ch]
		at := uint64(r.Range(10, 5000))
		add := func(a uint16, v uint8) {
			sc.Events = append(sc.Events, engine.Event{At: at, K: "bus_w", A: a, V: v})
			at += uint64(r.Range(1, 30))
		}
		add(nrx2, 0xf0)
		if r.Bool() {
			add(nrx4, 0x40)
		}
		t := uint8(0)
		if r.Chance(1, 3) {
			t = uint8(r.Intn(4))
		}
		add(nrx1, t)
		at += uint64(r.Intn(4096))
		add(nrx4, 0xc0)
		max := uint64(64)
		if ch == 2 {
			max = 256
		}
		sc.Cycles = at + (max+2)*4096
		return sc
	}
	if index%16 == 11 {
		// directed: channel 1 with its sweep unit adding, started within two cycles of a frame-sequencer
		// step (every kind of step comes up) at a frequency that overflows at one of the next sweep
		// clocks, then left alone: the status bit drops at the sweep clock of the overflow
		sc.Class = "sweep-on-step"
		at := uint64(r.Range(10, 3000))
		add := func(a uint16, v uint8) {
			sc.Events = append(sc.Events, engine.Event{At: at, K: "bus_w", A: a, V: v})
			at += uint64(r.Range(1, 30))
		}
		period, shift := r.Range(1, 7), r.Range(1, 3)
		f := r.Range(0x300, 0x7ff)
		add(0xff12, 0xf0)
		add(0xff10, uint8(period<<4|shift))
		add(0xff13, uint8(f))
		at = (at/2048+uint64(r.Range(1, 17)))*2048 + 2046 + uint64(r.Range(0, 4))
		add(0xff14, 0x80|uint8(f>>8))
		sc.Cycles = at + uint64(period)*8192*uint64(r.Range(2, 5))
		return sc
	}
	if index%16 == 3 {
		// directed: a note plays out (length counter at zero, length register not rewritten), the sound
		// unit is power-cycled, length counting is enabled with or without a trigger and the channel is
		// started by NRx4 alone: the counter a power cycle leaves behind is the one that was there
		sc.Class = "expired-then-power-cycle"
		ch := r.Intn(4)
		nrx1 := []uint16{0xff11, 0xff16, 0xff1b, 0xff20}[ch]
		nrx2 := []uint16{0xff12, 0xff17, 0xff1a, 0xff21}[ch]
		nrx4 := []uint16{0xff14, 0xff19, 0xff1e, 0xff23}[ch]
		at := uint64(r.Range(10, 5000))
		add := func(a uint16, v uint8) {
			sc.Events = append(sc.Events, engine.Event{At: at, K: "bus_w", A: a, V: v})
			at += uint64(r.Range(1, 30))
		}
		add(nrx2, 0xf0)
		add(nrx1, 0xff&^uint8(r.Intn(3)))
		add(nrx4, 0xc0)
		at += uint64(r.Range(3, 6)) * 4096
		add(0xff26, 0x00)
		at += uint64(r.Range(1, 9000))
		add(0xff26, 0x80)
		add(nrx2, 0xf0)
		for i, n := 0, r.Range(1, 3); i < n; i++ {
			at += uint64(r.Range(1, 9000))
			add(nrx4, engine.Pick(r, []uint8{0x40, 0x40, 0xc0, 0x80, 0x00}))
		}
		at += uint64(r.Range(1, 9000))
		add(nrx4, 0xc0)
		max := uint64(64)
		if ch == 2 {
			max = 256
		}
		sc.Cycles = at + (max+2)*4096
		return sc
	}
	if index%16 == 13 {
		// directed: the sweep unit works on its own copy of the frequency, taken at the trigger (and at
		// its own write-backs): the frequency registers rewritten afterwards without a trigger, NR10
		// rewritten (time 0 to a time, shift changed, same direction), then left alone for many sweep clocks
		sc.Class = "sweep-shadow"
		at := uint64(r.Range(10, 3000))
		add := func(a uint16, v uint8) {
			sc.Events = append(sc.Events, engine.Event{At: at, K: "bus_w", A: a, V: v})
			at += uint64(r.Range(1, 3000))
		}
		shift := r.Range(1, 7)
		time0 := 0
		if r.Bool() {
			time0 = r.Range(1, 7)
		}
		f := r.Range(0x100, 0x7ff)
		add(0xff12, 0xf0)
		add(0xff10, uint8(time0<<4|shift))
		add(0xff13, uint8(f))
		add(0xff14, 0x80|uint8(f>>8))
		for i, n := 0, r.Range(1, 4); i < n; i++ {
			switch r.Intn(3) {
			case 0:
				add(0xff13, r.Byte())
			case 1:
				add(0xff14, r.Byte()&0x07)
			default:
				add(0xff10, uint8(r.Range(0, 7)<<4|r.Range(0, 7)))
			}
		}
		add(0xff10, uint8(r.Range(1, 7)<<4|r.Range(1, 7)))
		sc.Cycles = at + 8192*uint64(r.Range(9, 40))
		return sc
	}
	long := index%8 == 7
	sc.Class = "short"
	span := uint64(r.Range(8000, 70000))
	if long {
		sc.Class = "long"
		span = uint64(r.Range(1100000, 3300000))
	}
	n := r.Range(10, 150)
	var ats []uint64
	for i := 0; i < n; i++ {
		t := uint64(r.Intn(int(span)))
		if r.Chance(1, 3) {
			// near a grid point (times are relative to the calibrated grid)
			t = t/2048*2048 + uint64(r.Range(0, 4)) + 2046
		}
		ats = append(ats, t)
	}
	sortU64(ats)
	for i := 1; i < len(ats); i++ {
		if ats[i] <= ats[i-1] {
			ats[i] = ats[i-1] + 1
		}
	}
	negate := uint8(r.Intn(2)) << 3
	nrx1 := []uint16{0xff11, 0xff16, 0xff1b, 0xff20}
	nrx2 := []uint16{0xff12, 0xff17, 0xff1a, 0xff21}
	nrx4 := []uint16{0xff14, 0xff19, 0xff1e, 0xff23}
	for _, at := range ats {
		ch := r.Intn(4)
		var a uint16
		var v uint8
		switch k := r.Intn(20); {
		case k < 5:
			a, v = nrx1[ch], r.Byte()
			if r.Chance(1, 2) {
				v = uint8(0x3c + r.Intn(4)) // few clocks left
				if ch == 2 {
					v = uint8(0xfc + r.Intn(4))
				}
			}
		case k < 8:
			a = nrx2[ch]
			v = r.Byte()
			if r.Bool() {
				v = engine.Pick(r, []uint8{0x00, 0x07, 0x08, 0xf0, 0x80})
			}
		case k < 16:
			a = nrx4[ch]
			v = r.Byte()&0x3f | uint8(r.Intn(2))<<7
			if r.Chance(3, 4) {
				v |= 0x40
			}
			if ch == 0 && r.Chance(1, 3) {
				v |= 0x07 // high frequency: the sweep overflows soon (or at once)
			}
		case k == 16:
			a, v = 0xff26, uint8(r.Intn(2))<<7
		case k == 17:
			// the negate bit is constant within a scenario: clearing it after a negate-mode
			// calculation switches the channel off on hardware, which the statement does not mention
			a = 0xff10
			v = negate
			if r.Chance(2, 3) {
				v = r.Byte()&^0x08 | negate
			}
		default:
			a = engine.Pick(r, []uint16{0xff13, 0xff18, 0xff1d, 0xff22, 0xff1c})
			v = r.Byte()
		}
		sc.Events = append(sc.Events, engine.Event{At: at, K: "bus_w", A: a, V: v})
	}
	// Whether the sweep unit's internal state (enabled flag, shadow frequency, timer) survives a
	// power cycle is not documented, and it decides later overflows: schedules that power the
	// unit off do not use the sweep at all.
	powerOff := false
	for _, e := range sc.Events {
		if e.A == 0xff26 && e.V&0x80 == 0 {
			powerOff = true
		}
	}
	if powerOff {
		for i := range sc.Events {
			if sc.Events[i].A == 0xff10 {
				sc.Events[i].V = negate
			}
		}
	}
	sc.Cycles = span + 300
	return sc
}

func (c19) Execute(sc *engine.Scenario) *engine.Result {
	res := &engine.Result{}
	m := build(sc, res)
	if m == nil {
		return res
	}
	m.Write(0xff40, 0)
	park(sc, m, res)
	ref := dmgref.NewAPU()
	ref.Power = true
	write := func(a uint16, v uint8) {
		m.Write(a, v)
		ref.Write(a, v)
	}
	// ---- calibration -------------------------------------------------------------------
	write(0xff26, 0x00)
	write(0xff26, 0x80)
	for _, a := range []uint16{0xff11, 0xff16, 0xff1b, 0xff20} {
		write(a, 0x00) // full length
	}
	write(0xff17, 0xf0) // channel 2 DAC on
	write(0xff16, 0x3f) // one length clock left
	write(0xff19, 0xc0) // trigger, length enabled
	if m.Read(0xff26)&0x02 == 0 {
		res.Fail("C19/calibration/trigger-does-not-turn-channel-on", m.N, "channel 2 triggered with its DAC on but NR52 reads %02x", m.Read(0xff26))
		return res
	}
	t0 := uint64(0)
	m.OnCycle = func() {
		if m.Read(0xff26)&0x02 == 0 {
			t0 = m.N
			m.Stop()
		}
	}
	m.RunCycles(2049)
	if t0 == 0 {
		res.Fail("C19/calibration/no-length-clock-within-2048-cycles", m.N, "channel 2 triggered right after power-on with one length clock left is still on after 2049 machine cycles")
		return res
	}
	ref.StepSequencer() // that was sequencer step 0 after the power-on
	res.Probe("calibrated")
	// ---- the judged run -----------------------------------------------------------------
	dg := engine.NewDigest()
	ok := true
	lastStatus := ref.Status() & 0x0f
	m.OnCycle = func() {
		if (m.N-t0)%2048 == 0 {
			before := ref.Status() & 0x0f
			ov := ref.Ch[0].On
			ref.StepSequencer()
			after := ref.Status() & 0x0f
			if before&^after != 0 {
				if ov && !ref.Ch[0].On && ref.Ch[0].Len > 0 {
					res.Probe("sweep_overflow")
				} else {
					res.Probe("length_expiry")
				}
			}
		}
		if (m.N-t0)%1048576 == 0 {
			res.Probe("second_boundary_crossed")
		}
		got := m.Read(0xff26)
		dg.Byte(got)
		want := ref.Status()
		if got != want {
			diff := (got ^ want) & 0x0f
			chn := 0
			for diff>>uint(chn)&1 == 0 && chn < 4 {
				chn++
			}
			kind := "on-but-documented-off"
			if want&(1<<uint(chn)) != 0 {
				kind = "off-but-documented-on"
			}
			if (got^want)&0xf0 != 0 {
				kind, chn = "power-bits", -1
			}
			res.Fail(fmt.Sprintf("C19/ch%d/%s", chn+1, kind), m.N, "NR52 reads %02x, reference %02x (cycle %d after the calibrated length clock: %d cycles after a sequencer step, next step index %d; reference length counters %d/%d/%d/%d, enables %v/%v/%v/%v)", got, want, m.N-t0, (m.N-t0)%2048, ref.Step7, ref.Ch[0].Len, ref.Ch[1].Len, ref.Ch[2].Len, ref.Ch[3].Len, ref.Ch[0].LenEn, ref.Ch[1].LenEn, ref.Ch[2].LenEn, ref.Ch[3].LenEn)
			ok = false
			m.Stop()
			return
		}
		lastStatus = got & 0x0f
	}
	_ = lastStatus
	ei := 0
	for m.N < t0+sc.Cycles && ok {
		for ei < len(sc.Events) && t0+sc.Events[ei].At <= m.N && ok {
			ev := sc.Events[ei]
			ei++
			if applyOther(m, &ev, res) {
				continue
			}
			ph := (m.N - t0) % 2048
			near := ph <= 2 || ph >= 2046
			if near {
				res.Probe("op_within_2_cycles_of_step")
			}
			chn := -1
			switch ev.A {
			case 0xff14, 0xff19, 0xff1e, 0xff23:
				chn = map[uint16]int{0xff14: 0, 0xff19: 1, 0xff1e: 2, 0xff23: 3}[ev.A]
				c := ref.Ch[chn]
				if ref.Power && ref.Step7%2 == 1 {
					if !c.LenEn && ev.V&0x40 != 0 && c.Len > 0 {
						res.Probe("extra_clock_on_enable")
					}
					if ev.V&0x80 != 0 && ev.V&0x40 != 0 && (c.Len == 0 || (c.Len == 1 && !c.LenEn)) {
						res.Probe("trigger_reload_in_first_half")
					}
				}
			case 0xff26:
				if ref.Power != (ev.V&0x80 != 0) {
					res.Probe("power_toggle")
				}
			}
			write(ev.A, ev.V)
			res.Fault("sound_write")
			res.Sig(fmt.Sprintf("%04x/next-step-odd=%v/near=%v/power=%v/trig=%v", ev.A, ref.Step7%2 == 1, near, ref.Power, chn >= 0 && ev.V&0x80 != 0))
			// the write takes effect at once: compare right away as well
			if got, want := m.Read(0xff26), ref.Status(); got != want {
				res.Fail(fmt.Sprintf("C19/after-write/%04x", ev.A), m.N, "after %04x<-%02x NR52 reads %02x, reference %02x (%d cycles after a sequencer step, next step index %d, reference length counters %d/%d/%d/%d)", ev.A, ev.V, got, want, ph, ref.Step7, ref.Ch[0].Len, ref.Ch[1].Len, ref.Ch[2].Len, ref.Ch[3].Len)
				ok = false
			}
		}
		if !ok {
			break
		}
		next := t0 + sc.Cycles
		if ei < len(sc.Events) && t0+sc.Events[ei].At < next {
			next = t0 + sc.Events[ei].At
		}
		if next <= m.N {
			next = m.N + 1
		}
		m.RunCycles(next - m.N)
	}
	res.Cycles = m.N
	res.Digest = uint64(dg)
	return res
}
