package props

import (
	"verifsim/dmgref"

	"fmt"
	"image"

	"verifsim/engine"
	"verifsim/machine"
)

// C26 — the frame loop steps every component once per machine cycle and stops on request.
//
// Simulated dimension: the schedule of the frame loop itself and the cancellation / close
// events of the outside world. Class progress: generated guest programs (including HALT and
// STOP, DIV/LCDC/DMA writes) run in lock step with the reference CPU, so the cycle of every
// guest write is known; after every cycle of the real loop each party's progress is measured
// (timer counter +4, PPU position +1 when on, DMA progress +1 when running, MBC3 sub-second
// +1, audio samples per frame). Class stop: the emulator's own Run is executed under the
// simulated context; cancellation (at a Done evaluation or mid-frame) and window close are
// injected at random times.
type c26 struct{}

func init() { engine.Register(c26{}) }

func (c26) ID() string { return "C26" }

func (c26) Budget(tier string) int {
	if tier == "thorough" {
		return 120000
	}
	return 3600
}

func (c26) Describe() engine.Info {
	return engine.Info{
		Rule: "class progress: random machine state + generated program with DIV/LCDC/FF46 writes, HALT and STOP + key events; class stop: real Run() under SimContext with cancel-before-start / cancel at the k-th Done evaluation / cancel mid-frame at a random cycle / window close at frame k, workloads with LCD on and off, audio and video attached or not. " +
			"Oracle progress: exactly one step per party per cycle (a guest write to DIV/LCDC/FF46 in cycle n is seen by that party's tick in cycle n: counter=4, PPU position=1, DMA progress=1), 17,556 cycles between frames handed to the display, 738..740 stereo samples per frame when sound is on. Oracle stop: Run returns having started no frame after the request was visible, the frame in flight completes, Cleanup released the display once and closed both sample channels. Signature = (class, request kind, frame phase bucket / party event kind)." +
			" A directed prologue produces TIMA overflows caused by the guest DIV/TAC write itself. A second prologue stores to DIV/TAC every other cycle with TIMA = TMA = FF; the harness acknowledges a timer request once seen so that the next overflow can be told from it.",
		Assumptions:    []string{"party progress is read through the verif accessors (timer counter, PPU position, DMA progress, RTC sub-second count)", "audio progress is judged by samples per frame (black box)"},
		RequiredProbes: []string{"audio_clock_checked_while_powered_off", "timer_overflow_request_checked", "timer_overflow_caused_by_a_guest_write", "frames_counted", "guest_div_write", "guest_lcdc_on", "guest_dma_start", "cpu_stopped_cycles", "cpu_halted_cycles", "cancel_mid_frame", "cancel_at_done", "close_request", "cancel_before_start", "channels_closed"},
		RealComponents: realComponents, StubComponents: stubComponents,
	}
}

func (c26) Generate(r *engine.Rand, index int, tier string) *engine.Scenario {
	sc := &engine.Scenario{}
	if index%2 == 0 {
		sc.Class = "progress"
		g := &progGen{r: r, base: lsCodeWRAM, ramOnly: true}
		g.emitStackSetup()
		io := []uint8{0x04, 0x40, 0x46, 0x07, 0x05, 0x06, 0x26}
		if index%8 == 2 {
			// an overflow caused by the guest's own write: DIV cleared, slowest-but-one rate (the selected
			// counter bit is high from cycle 32 to 63), TIMA = FF while the bit is high, then a DIV write or
			// a TAC write that stops the timer makes the signal fall: TIMA overflows in that cycle
			g.emit(0xaf, 0xe0, 0x04, 0x3e, 0x07, 0xe0, 0x07)
			g.filler(r.Range(20, 44))
			g.emit(0x3e, 0xff, 0xe0, 0x05)
			g.filler(r.Intn(6))
			if r.Bool() {
				g.emit(0xe0, 0x04)
			} else {
				g.emit(0x3e, engine.Pick(r, []uint8{0x03, 0x00, 0x05}), 0xe0, 0x07)
			}
			g.filler(r.Range(2, 8))
		}
		if index%8 == 6 {
			// stores to DIV and TAC back to back (two or three cycles apart) with TIMA and TMA at FF and the
			// fastest rate: overflows caused by a store in the cycles right after a reload, one after another
			g.emit(0x3e, 0xff, 0xe0, 0x06, 0x3e, 0x05, 0xe0, 0x07, 0x3e, 0xff, 0xe0, 0x05)
			g.emit(0x21, 0x04, 0xff, 0x06, 0x04, 0x3e, 0x05)
			for i, n := 0, r.Range(20, 70); i < n; i++ {
				switch r.Intn(8) {
				case 0:
					g.emit(0x2e, 0x07) // LD L,07: HL = TAC
				case 1:
					g.emit(0x2e, 0x04) // LD L,04: HL = DIV
				case 2:
					g.emit(0x70) // LD (HL),B (4: another rate / DIV reset)
				case 3:
					g.emit(0xe0, 0x07) // LDH (07),A (5)
				case 4:
					g.emit(0xe0, 0x04)
				case 5:
					g.emit(0x00)
				default:
					for j, q := 0, r.Range(1, 6); j < q; j++ {
						g.emit(0x77) // LD (HL),A, several in a row: a store every other cycle
					}
				}
			}
			g.filler(r.Range(2, 8))
		}
		for i, n := 0, r.Range(6, 40); i < n; i++ {
			switch k := r.Intn(12); {
			case k < 4:
				a := engine.Pick(r, io)
				v := r.Byte()
				switch a {
				case 0x40:
					v = r.Byte()&0x7f | uint8(r.Intn(2))<<7
				case 0x46:
					v = uint8(r.Range(0xc8, 0xdd))
					if r.Bool() {
						v = uint8(r.Range(0x80, 0x9f))
					}
				case 0x26:
					v = uint8(r.Intn(2)) << 7 // sound power off / on
				case 0x07:
					v = r.Byte() & 7
					if r.Bool() {
						v = 5 // the fastest rate: overflows within the run
					}
				}
				g.emit(0x3e, v, 0xe0, a)
			case k == 4:
				g.emitUnit(r.Byte(), true, false)
			default:
				g.emitUnit(engine.Pick(r, lockstepOps), false, false)
			}
		}
		switch r.Intn(3) {
		case 0:
			g.emit(0x76) // HALT (nothing enabled: idles for the rest of the run)
		case 1:
			g.emit(0x10, 0x00) // STOP
		}
		g.emit(0x00, 0x00)
		g.finish()
		lsScenario(sc, r, g)
		sc.Cart = engine.CartSpec{Kind: "mbc3", Type: 0x10, RomCode: 1, RamCode: 3, Program: "18fe", FillSeed: r.U64()}
		sc.Audio = r.Bool()
		sc.Video = r.Bool()
		sc.SetP("ctr", int64(r.U16()&^3))
		sc.Cycles = uint64(r.Range(1, 3))*17556 + uint64(r.Intn(17556))
		if index%128 == 0 {
			// soak: hundreds (thorough: thousands) of frames, every party checked in every cycle
			frames := 60
			if tier == "thorough" {
				frames = 1500
			}
			sc.Cycles = uint64(frames)*17556 + uint64(r.Intn(17556))
			sc.SetP("soak", 1)
		}
		if r.Chance(1, 3) {
			sc.Events = append(sc.Events, engine.Event{At: uint64(r.Intn(int(sc.Cycles))), K: "key", A: uint16(r.Intn(8)), V: 1})
		}
		return sc
	}
	sc.Class = "stop"
	w := randomWorkload(r)
	if r.Chance(1, 4) {
		w.Kind = "scene-lcdoff"
	}
	w.Video = r.Chance(3, 4)
	w.store(sc, "")
	kinds := []string{"cancel_before_start", "cancel_at_done", "cancel_mid_frame", "close_request"}
	k := kinds[r.Intn(len(kinds))]
	if k == "close_request" && !w.Video {
		k = "cancel_mid_frame"
	}
	sc.SetStr("stop", k)
	sc.SetP("frame", int64(r.Range(1, 5)))
	sc.SetP("cycle", int64(r.Intn(17556)))
	sc.Cycles = 8 * 17556
	return sc
}

func (p c26) Execute(sc *engine.Scenario) *engine.Result {
	if sc.Class == "progress" {
		return p.progress(sc)
	}
	return p.stop(sc)
}

func (c26) progress(sc *engine.Scenario) *engine.Result {
	res := &engine.Result{}
	l := newLockstep(sc, res)
	if l == nil {
		return res
	}
	m := l.m
	m.Tim.VerifSetCounter(uint16(sc.P("ctr", 0)))
	// the lock-step harness switched the LCD and timer off; the program switches them on again
	prevCtr := m.Tim.VerifCounter()
	prevPPU := m.PPU.VerifTicks()
	prevOn := m.PPU.VerifOn()
	prevDMAon, prevDMA := m.OAM.VerifDMA()
	prevRTC := m.Map.VerifGetRTC().Ticks
	prevAPU := m.APU.VerifWave().Ticks
	// reference timer alongside: an overflow must raise the timer request whatever the CPU's
	// master enable is (IE is 0 in these programs, so nothing is ever dispatched or acknowledged)
	var rt dmgref.Timer
	rt.Reset(prevCtr)
	rt.TIMA, rt.TMA = m.Read(0xff05), m.Read(0xff06)
	rt.WriteTAC(m.Read(0xff07))
	reqDue := uint64(0)
	prevIF2 := m.IRQ.ReadIF()&4 != 0
	samples := 0
	frameStart := uint64(0)
	lastFrameN := uint64(0)
	prevMTick := -1
	lastShown := uint64(0)
	m.OnFrame = func(_ *image.RGBA) bool {
		if lastShown != 0 && m.N-lastShown != 17556 {
			res.Fail("C26/frame-length", m.N, "%d machine cycles between two frames handed to the display", m.N-lastShown)
		}
		lastShown = m.N
		return false
	}
	fail := func(cls string, format string, a ...interface{}) {
		res.Fail("C26/"+cls, m.N, format, a...)
	}
	drain := func() {
		if m.Spk == nil {
			return
		}
		for {
			select {
			case <-m.Spk.Left():
				samples++
				continue
			default:
			}
			select {
			case <-m.Spk.Right():
				samples++
				continue
			default:
			}
			return
		}
	}
	l.onCycle = func(l *lockstep) {
		if res.Violation != nil {
			return
		}
		// which party registers did the guest write in this very cycle (known from the reference)?
		var wroteDIV, wroteLCDC, wroteDMA, wroteTimer bool
		for _, a := range l.ref.Acc {
			if a.Write && a.Cycle == l.ref.Cycles && l.k == l.ref.Cycles {
				switch a.Addr {
				case 0xff04:
					wroteDIV = true
				case 0xff40:
					wroteLCDC = true
				case 0xff46:
					wroteDMA = true
				case 0xff05, 0xff06, 0xff07:
					wroteTimer = true
				}
			}
		}
		_ = wroteTimer
		ovBefore := rt.Overflows
		for _, a := range l.ref.Acc {
			if a.Write && a.Cycle == l.ref.Cycles && l.k == l.ref.Cycles {
				switch a.Addr {
				case 0xff04:
					rt.WriteDIV()
				case 0xff05:
					rt.WriteTIMA(a.Val)
				case 0xff06:
					rt.WriteTMA(a.Val)
				case 0xff07:
					rt.WriteTAC(a.Val)
				case 0xff0f:
					reqDue = 0
				}
			}
		}
		rt.Tick()
		if reqDue != 0 && rt.Cancelled {
			reqDue = 0 // a TIMA write in the cycle after the overflow cancels the reload and the request
		}
		if reqDue != 0 && m.N >= reqDue {
			reqDue = 0
			res.Probe("timer_overflow_request_checked")
			if m.IRQ.ReadIF()&4 == 0 {
				fail("timer-overflow-without-request", "TIMA overflowed and was reloaded (reference timer) but IF bit 2 is not set after the reload cycle (master enable %v, IE %02x)", m.IRQ.Enabled(), m.IRQ.ReadIE())
			}
		}
		if rt.Overflows != ovBefore && !rt.OverflowByTick {
			res.Probe("timer_overflow_caused_by_a_guest_write")
		}
		if rt.Overflows != ovBefore && !prevIF2 {
			reqDue = m.N + 2 // the request flag was clear before: it must be set once the reload cycle is over
		}
		if reqDue == 0 && m.IRQ.ReadIF()&4 != 0 {
			// the harness acknowledges a timer request once it has been seen (nothing in these programs
			// would: IE is 0), so that every overflow can be told from the one before it
			m.IRQ.ResetTimer()
			l.ifReg &^= 4
			res.Probe("timer_request_acknowledged_by_the_harness")
		}
		prevIF2 = m.IRQ.ReadIF()&4 != 0
		// timer
		ctr := m.Tim.VerifCounter()
		switch {
		case wroteDIV:
			res.Probe("guest_div_write")
			if ctr != 4 {
				fail("cpu-not-first/timer", "guest wrote DIV in this cycle; after the cycle the counter is %04x, expected 0004 (reset by the CPU, then one timer step)", ctr)
			}
		case ctr != prevCtr+4:
			fail("timer-step", "timer counter went %04x -> %04x in one machine cycle (cpu halted=%v stopped=%v)", prevCtr, ctr, m.CPU.VerifHalted(), m.CPU.VerifStopped())
		}
		prevCtr = ctr
		// video
		on, t := m.PPU.VerifOn(), m.PPU.VerifTicks()
		switch {
		case wroteLCDC && on && !prevOn:
			res.Probe("guest_lcdc_on")
			if t != 1 {
				fail("cpu-not-first/ppu", "guest switched the LCD on in this cycle; PPU position after the cycle is %d, expected 1", t)
			}
		case on && prevOn && !wroteLCDC:
			d := (t - prevPPU + 17556) % 17556
			if d != 1 && d != 3 {
				fail("ppu-step", "PPU position went %d -> %d in one machine cycle", prevPPU, t)
			}
		case !on && t != 0:
			fail("ppu-step", "LCD is off but the PPU position is %d", t)
		}
		prevOn, prevPPU = on, t
		// DMA
		don, dc := m.OAM.VerifDMA()
		switch {
		case wroteDMA:
			res.Probe("guest_dma_start")
			if !don || dc != 1 {
				fail("cpu-not-first/dma", "guest started a DMA in this cycle; after the cycle running=%v progress=%d, expected running, 1", don, dc)
			}
		case prevDMAon && don && dc != prevDMA+1:
			fail("dma-step", "DMA progress went %d -> %d in one machine cycle", prevDMA, dc)
		case prevDMAon && !don && prevDMA != 161:
			fail("dma-step", "DMA stopped at progress %d", prevDMA)
		case !prevDMAon && don:
			fail("dma-step", "a DMA started without a guest write to FF46")
		}
		prevDMAon, prevDMA = don, dc
		// cartridge clock
		rt := m.Map.VerifGetRTC()
		if !rt.Halt && rt.Ticks != (prevRTC+1)%1048576 {
			fail("rtc-step", "RTC sub-second count went %d -> %d in one machine cycle", prevRTC, rt.Ticks)
		}
		prevRTC = rt.Ticks
		// sound unit: four clocks per machine cycle, powered on or off (its counter restarts at 1 once
		// per emulated second)
		if at := m.APU.VerifWave().Ticks; true {
			if !(at == prevAPU+4 || (at < prevAPU && at <= 8)) {
				fail("audio-step", "the sound unit's clock went %d -> %d in one machine cycle (sound power %v)", prevAPU, at, m.APU.ReadNR52()&0x80 != 0)
			}
			if m.APU.ReadNR52()&0x80 == 0 {
				res.Probe("audio_clock_checked_while_powered_off")
			}
			prevAPU = at
		}
		if m.CPU.VerifStopped() {
			res.Probe("cpu_stopped_cycles")
		}
		if m.CPU.VerifHalted() {
			res.Probe("cpu_halted_cycles")
		}
		drain()
		// frames: a new pass of the real loop starts (mtick wraps to 0) every 17,556 cycles
		if m.MTick == 0 && m.N > 1 {
			if prevMTick != 17555 {
				fail("frame-length", "a frame of the real loop ran %d machine cycles", prevMTick+1)
			}
		}
		prevMTick = m.MTick
		if m.MTick == 17555 {
			if lastFrameN != 0 {
				res.Probe("frames_counted")
				if m.Spk != nil && m.APU.ReadNR52()&0x80 != 0 && frameStart == lastFrameN {
					// sound was on for the whole frame: 70,224 clocks / 95 per stereo sample
					pairs := samples / 2
					if samples%2 != 0 || pairs < 738 || pairs > 740 {
						fail("audio-step", "%d samples (L+R) were emitted during one frame with sound on, expected 2 x 738..740", samples)
					}
					res.Probe("audio_frames")
				}
			}
			lastFrameN = m.N
			frameStart = m.N
			samples = 0
		}
		if m.APU.ReadNR52()&0x80 == 0 {
			frameStart = 0 // sound not on for the whole frame
		}
	}
	l.onInstr = func(l *lockstep, realCycles int, mism []lsMismatch) bool {
		for _, mm := range mism {
			if mm.kind == "undefined" {
				res.Harness = mm.detail
				return false
			}
		}
		if res.Violation != nil {
			return false
		}
		return true
	}
	l.run(sc.Cycles)
	res.Sig(fmt.Sprintf("progress/audio=%v/video=%v/halt=%v/stop=%v", sc.Audio, sc.Video, res.Probes["cpu_halted_cycles"] > 0, res.Probes["cpu_stopped_cycles"] > 0))
	if m.Spk != nil {
		m.GB.Cleanup()
	}
	return res
}

func (c26) stop(sc *engine.Scenario) *engine.Result {
	res := &engine.Result{}
	w := loadWorkload(sc, "")
	lcdOff := false
	if w.Kind == "scene-lcdoff" {
		w.Kind = "scene"
		lcdOff = true
	}
	m := newFree(w, 0, res)
	if m == nil {
		return res
	}
	if lcdOff {
		m.Write(0xff40, 0x00)
	}
	kind := sc.Str("stop")
	frame := int(sc.P("frame", 1))
	cyc := uint64(sc.P("cycle", 0))
	t := newTracer(m, 4096)
	requestAt := uint64(0) // boundary at which the request became visible
	requested := false
	framesShown := 0
	closeNow := false
	mOnFrame := func() bool {
		framesShown++
		if kind == "close_request" && framesShown == frame {
			requested = true
			requestAt = m.N
			closeNow = true
		}
		return closeNow
	}
	m.OnFrame = func(_ *image.RGBA) bool { return mOnFrame() }
	m.OnCycle = func() {
		t.drain()
		if kind == "cancel_mid_frame" && !requested && m.N == uint64(frame-1)*17556+cyc+1 {
			m.Ctx().Cancel()
			requested = true
			requestAt = m.N
		}
		if m.N > uint64(frame+3)*17556 {
			// safety net: Run did not stop
			m.Stop()
		}
	}
	switch kind {
	case "cancel_before_start":
		m.Ctx().Cancel()
		requested = true
	case "cancel_at_done":
		m.Ctx().CancelAtDoneCall = frame
	}
	pi := machine.Protect(func() { m.RunReal() })
	if pi != nil {
		if pi.Emulator {
			// a crash is C11's business; nothing to judge here
			res.Sig("stop/" + kind + "/panic")
			return res
		}
		res.Harness = "harness panic: " + pi.Value + "\n" + pi.Stack
		return res
	}
	res.Probe(kind)
	res.Cycles = m.N
	if m.StoppedOnUndefined {
		res.Sig("stop/" + kind + "/undefined-opcode")
		return res
	}
	fail := func(cls string, format string, a ...interface{}) {
		res.Fail("C26/"+cls+"/"+kind, m.N, format, a...)
	}
	switch kind {
	case "cancel_before_start":
		if m.N != 0 {
			fail("frame-after-cancel", "context was cancelled before Run; Run still executed %d machine cycles", m.N)
		}
	case "cancel_at_done":
		// Done() became ready at its frame-th evaluation: frame-1 whole frames ran
		if m.N != uint64(frame-1)*17556 {
			fail("frame-after-cancel", "context cancelled at the %d-th Done evaluation; Run executed %d machine cycles, expected %d", frame, m.N, (frame-1)*17556)
		}
	case "cancel_mid_frame":
		// the frame in flight completes, no further frame starts
		want := uint64(frame) * 17556
		if m.N > want+17556 {
			fail("did-not-stop", "context cancelled at cycle %d; Run was still running at cycle %d", requestAt, m.N)
		} else if m.N != want {
			fail("frame-after-cancel", "context cancelled at cycle %d (frame %d); Run returned after %d cycles, expected %d (end of the frame in flight)", requestAt, frame, m.N, want)
		}
	case "close_request":
		want := uint64(frame) * 17556
		if m.N > want+17556 {
			fail("did-not-stop", "display asked to close after frame %d; Run was still running at cycle %d", frame, m.N)
		} else if m.N != want {
			fail("frame-after-close", "display asked to close after frame %d; Run returned after %d cycles, expected %d", frame, m.N, want)
		}
	}
	// outputs released
	if res.Violation == nil {
		if w.Video && m.DisplayCleanups != 1 {
			fail("display-not-released", "display Cleanup was called %d times after Run returned", m.DisplayCleanups)
		}
		if m.Spk != nil {
			t.drain()
			isOpen := func(ch chan float32) bool {
				select {
				case _, ok := <-ch:
					return ok
				default:
					return true
				}
			}
			okL, okR := isOpen(m.Spk.Left()), isOpen(m.Spk.Right())
			if okL || okR {
				fail("channels-not-closed", "sample channels still open after Run returned (left open=%v right open=%v)", okL, okR)
			} else {
				res.Probe("channels_closed")
			}
		} else {
			res.Probe("channels_closed")
		}
	}
	phase := "early"
	if cyc > 11700 {
		phase = "late"
	} else if cyc > 5800 {
		phase = "mid"
	}
	res.Sig(fmt.Sprintf("stop/%s/%s/%s/audio=%v/video=%v/lcdoff=%v", kind, w.Kind, phase, w.Audio, w.Video, lcdOff))
	t.checkpoint()
	res.Digest = uint64(t.dg) ^ m.N
	return res
}
