package props

import (
	"fmt"

	"verifsim/dmgref"
	"verifsim/engine"
	"verifsim/machine"
)

// C07 — a write changes only the state documented for its address.
//
// Simulated dimension: histories. The machine is first driven into a randomised state
// (random I/O pokes at random cycles: LCD on or off, timer running, sound channels playing,
// a DMA transfer possibly in flight, cartridge banks switched), then single writes are
// performed by the scripted bus master with no machine cycle in between, and the whole
// 64 KiB address space is observed before and after each (bus reads; OAM through the
// side-effect-free accessor). Every location that differs must be in the documented effect
// set of the written address.
type c07 struct{}

func init() { engine.Register(c07{}) }

func (c07) PostGenerate(r *engine.Rand, sc *engine.Scenario) { chooseEnvConfig(r, sc) }

func (c07) ID() string { return "C07" }

func (c07) Budget(tier string) int {
	if tier == "thorough" {
		return 24000
	}
	return 2240
}

func (c07) Describe() engine.Info {
	return engine.Info{
		Rule: "scenario = cartridge (ROM-only / MBC1 / MBC3 / MBC5) + warm-up of 0..300 random I/O and cartridge-control pokes spread over up to two frames (machine state randomised) + 40 judged writes: class io walks FF00-FFFF (index selects the 40-address window) with random/edge values, class any picks addresses from all regions incl. region boundaries; between judged writes 0..3 cycles elapse. " +
			"Oracle: before/after diff of all 65,536 readable locations around the single write; the set of changed locations must be a subset of the documented effect set of the address (own location and echo; ROM/RAM windows for cartridge control; DIV/TAC: FF04-FF05; LCDC: FF40, FF41, FF44; FF46: FF46 and FE00-FEFF; NR52: FF10-FF3F; NRx0/NRx2/NRx4: own, NR52, wave RAM window for channel 3; wave RAM: FF30-FF3F; LYC: FF45, FF41; TMA: FF06, FF05). Signature = (written register or region, LCD on, sound on, DMA running, changed-set class)." +
			" Warm-ups also press and release keys. Class any on MBC1/MBC5 also performs a control write and a RAM-window store at one boundary with no observation in between (judged as the union; the cartridge windows afterwards must be those of the reference cartridge). A write to a channel's registers may change only that channel's status bit in NR52. After every cartridge write the two ROM windows and the RAM window must equal the reference cartridge (MBC1/MBC3/MBC5; MBC3 select/store/select sequences incl. the unmapped selects 0D-0F).",
		Assumptions:    []string{"reads used for the observation are free of side effects (OAM is peeked)", "no machine cycle elapses between the two observations, so only the write can cause a difference"},
		RequiredProbes: []string{"sound_warmup_all_channels_on", "diffs", "write_with_lcd_on", "write_with_dma_running", "write_with_sound_on", "write_changed_other_location_legally", "key_event_in_warm_up", "control_write_and_store_unobserved_in_between"},
		RealComponents: realComponents, StubComponents: stubComponents,
		Sweeps: []string{"every address of FF00-FFFF is written in some scenario of class io (256 addresses / 40 per scenario, index-enumerated)"},
	}
}

func (c07) Generate(r *engine.Rand, index int, tier string) *engine.Scenario {
	sc := &engine.Scenario{}
	kinds := []engine.CartSpec{
		{Kind: "rom", Type: 0, RomCode: 0, RamCode: 0},
		{Kind: "mbc1", Type: 0x03, RomCode: 2, RamCode: 3},
		{Kind: "mbc3", Type: 0x10, RomCode: 1, RamCode: 3},
		{Kind: "mbc5", Type: 0x1b, RomCode: 2, RamCode: 3},
	}
	sc.Cart = kinds[r.Intn(len(kinds))]
	sc.Cart.Program = "18fe"
	sc.Cart.FillSeed = r.U64()
	sc.SetP("wseed", int64(r.U64()>>1))
	sc.SetP("warm", int64(r.Intn(300)))
	sc.SetP("warmcycles", int64(r.Intn(35000)))
	at := uint64(1)
	add := func(a uint16, v uint8) {
		sc.Events = append(sc.Events, engine.Event{At: at, K: "bus_w", A: a, V: v})
		at += uint64(r.Range(1, 4)) // at most one bus operation per boundary (a guest writes once per cycle)
	}
	if index%3 == 2 {
		// the registers with documented side effects, written in quick succession so that each is hit in many machine states
		sc.Class = "hot"
		hot := []uint16{0xff11, 0xff13, 0xff13, 0xff16, 0xff18, 0xff1b, 0xff1c, 0xff1d, 0xff20, 0xff22, 0xff24, 0xff25, 0xff40, 0xff40, 0xff40, 0xff41, 0xff0f, 0xff45, 0xff46, 0xff04, 0xff07, 0xff05, 0xff06, 0xff26, 0xff26, 0xff10, 0xff12, 0xff14, 0xff17, 0xff19, 0xff1a, 0xff1e, 0xff21, 0xff23, 0xff30, 0xff3f, 0xff00, 0xffff, 0x0000, 0x2000, 0x4000, 0x6000}
		lcd := true
		for i := 0; i < 40; i++ {
			a := engine.Pick(r, hot)
			v := r.EdgeByte()
			switch a {
			case 0xff40:
				lcd = !lcd
				v &^= 0x80
				if lcd {
					v |= 0x80
				}
			case 0xff0f:
				if r.Bool() {
					v = 0
				}
			case 0xff46:
				v = uint8(r.Intn(0xe0))
			case 0xff14, 0xff19, 0xff1e, 0xff23:
				if r.Bool() {
					v |= 0x80
				}
			case 0xff26:
				v = uint8(r.Intn(2)) << 7
			}
			add(a, v)
		}
	} else if index%2 == 0 {
		sc.Class = "io"
		base := 0xff00 + (index/2*40)%256
		for i := 0; i < 40; i++ {
			a := uint16(0xff00 + (base-0xff00+i)%256)
			add(a, r.EdgeByte())
		}
	} else {
		sc.Class = "any"
		for i := 0; i < 40; i++ {
			if (sc.Cart.Kind == "mbc1" || sc.Cart.Kind == "mbc5") && r.Chance(1, 5) {
				// a cartridge-control write directly followed by a store into the RAM window, with no look at
				// the machine in between: judged together (the union of what the two may change), and the
				// cartridge windows afterwards are those of the reference cartridge
				if r.Chance(1, 3) {
					add(0x0000+uint16(r.Intn(0x2000)), 0x0a)
				}
				ctl := engine.Pick(r, []uint16{0x4000, 0x4000, 0x6000, 0x2000, 0x0000, 0x3000}) + uint16(r.Intn(0x1000))
				sc.Events = append(sc.Events, engine.Event{At: at, K: "bus_w", A: ctl, V: r.EdgeByte(), S: "blind"}) // same boundary as the store: no machine cycle in between
				add(0xa000+uint16(r.Intn(0x2000)), r.EdgeByte())
				continue
			}
			if sc.Cart.Kind == "mbc3" && r.Chance(1, 6) {
				// MBC3: a store into the window under each kind of select (RAM banks, clock registers, the
				// unmapped codes 0D-0F), then a RAM bank selected again: each write judged on its own
				if r.Chance(1, 2) {
					add(uint16(r.Intn(0x2000)), 0x0a)
				}
				add(0x4000+uint16(r.Intn(0x2000)), engine.Pick(r, []uint8{0, 1, 2, 3, 0x08, 0x0c, 0x0d, 0x0e, 0x0f, 0x0d, 0x0f, 0x07}))
				add(0xa000+uint16(r.Intn(0x2000)), r.EdgeByte())
				add(0x4000+uint16(r.Intn(0x2000)), uint8(r.Intn(4)))
				continue
			}
			var a uint16
			switch r.Intn(8) {
			case 0:
				a = uint16(r.Intn(0x8000))
			case 1:
				a = 0x8000 + uint16(r.Intn(0x2000))
			case 2:
				a = 0xa000 + uint16(r.Intn(0x2000))
			case 3:
				a = 0xc000 + uint16(r.Intn(0x3e00))
			case 4:
				a = 0xfe00 + uint16(r.Intn(0x100))
			case 5:
				a = engine.Pick(r, []uint16{0x1fff, 0x2000, 0x3fff, 0x4000, 0x5fff, 0x6000, 0x7fff, 0x8000, 0x9fff, 0xa000, 0xbfff, 0xc000, 0xdfff, 0xe000, 0xfdff, 0xfe00, 0xfe9f, 0xfea0, 0xfeff, 0xff00, 0xff7f, 0xff80, 0xfffe, 0xffff})
			default:
				a = 0xff00 + uint16(r.Intn(0x100))
			}
			add(a, r.EdgeByte())
		}
	}
	sc.Cycles = at + 4
	return sc
}

// allowedChange reports whether a write to w may change the readable value at c.
func c07Allowed(w, c uint16) bool {
	if w == c {
		return true
	}
	in := func(lo, hi uint16) bool { return c >= lo && c <= hi }
	switch {
	case w < 0x8000:
		return in(0x0000, 0x7fff) || in(0xa000, 0xbfff)
	case w >= 0xc000 && w < 0xde00:
		return c == w+0x2000
	case w >= 0xe000 && w < 0xfe00:
		return c == w-0x2000
	}
	switch w {
	case 0xff04, 0xff07:
		return in(0xff04, 0xff05)
	case 0xff06:
		return c == 0xff05
	case 0xff40:
		return c == 0xff41 || c == 0xff44
	case 0xff45:
		return c == 0xff41
	case 0xff46:
		return in(0xfe00, 0xfeff)
	case 0xff26:
		return in(0xff10, 0xff3f)
	case 0xff10, 0xff12, 0xff14, 0xff17, 0xff19, 0xff21, 0xff23:
		return c == 0xff26
	case 0xff1a, 0xff1e:
		return c == 0xff26 || in(0xff30, 0xff3f)
	}
	if w >= 0xff30 && w <= 0xff3f {
		return in(0xff30, 0xff3f)
	}
	return false
}

func c07Name(a uint16) string {
	switch {
	case a < 0x8000:
		return fmt.Sprintf("cart-ctl-%x", a>>13)
	case a < 0xa000:
		return "vram"
	case a < 0xc000:
		return "cart-ram"
	case a < 0xe000:
		return "wram"
	case a < 0xfe00:
		return "echo"
	case a < 0xfea0:
		return "oam"
	case a < 0xff00:
		return "unusable"
	case a < 0xff80 || a == 0xffff:
		return fmt.Sprintf("%04x", a)
	}
	return "hram"
}

func (c07) Execute(sc *engine.Scenario) *engine.Result {
	res := &engine.Result{}
	m := build(sc, res)
	if m == nil {
		return res
	}
	m.Park()
	// the reference timer runs alongside so that the effect set of timer register writes can be exact
	var tim dmgref.Timer
	tim.Reset(m.Tim.VerifCounter())
	m.OnCycle = func() { tim.Tick() }
	realWrite := m.Write
	img, _ := cartBuild(sc.Cart)
	ct := dmgref.NewCart(img)
	write := func(a uint16, v uint8) {
		if a < 0x8000 || (a >= 0xa000 && a < 0xc000) {
			ct.Write(a, v)
		}
		switch a {
		case 0xff04:
			tim.WriteDIV()
		case 0xff05:
			tim.WriteTIMA(v)
		case 0xff06:
			tim.WriteTMA(v)
		case 0xff07:
			tim.WriteTAC(v)
		}
		realWrite(a, v)
	}
	r := engine.NewRand(uint64(sc.P("wseed", 1)))
	// warm-up: randomise the machine state
	warm := int(sc.P("warm", 0))
	wc := uint64(sc.P("warmcycles", 0))
	pi := machine.Protect(func() {
		for i := 0; i < warm; i++ {
			var a uint16
			switch r.Intn(5) {
			case 0:
				a = uint16(r.Intn(0x8000))
			case 1:
				a = 0xff10 + uint16(r.Intn(0x30))
			case 2:
				a = engine.Pick(r, []uint16{0xff40, 0xff40, 0xff41, 0xff45, 0xff46, 0xff07, 0xff05, 0xff06, 0xff26, 0xff1a, 0xff1e, 0xff14, 0xff00})
			default:
				a = 0xff00 + uint16(r.Intn(0x80))
			}
			if a == 0xff46 {
				write(a, uint8(r.Intn(0xe0)))
			} else {
				write(a, r.Byte())
			}
			if r.Chance(1, 6) {
				// keys held or released by the user: part of the machine state the judged writes meet
				m.Key(controllerButton(r.Intn(8)), r.Chance(2, 3))
				res.Fault("key")
				res.Probe("key_event_in_warm_up")
			}
			if wc > 0 {
				m.RunCycles(1 + uint64(r.Intn(int(wc/uint64(warm)+1))))
			} else {
				m.RunCycles(1) // a guest performs one bus operation per machine cycle, in the warm-up too
			}
		}
	})
	if pi == nil && r.Chance(1, 3) {
		// timer warm-up: run into an overflow and stop or reprogram the timer in one of the cycles around the reload
		pi = machine.Protect(func() {
			write(0xff06, r.Byte())
			write(0xff07, 0x04|uint8(r.Intn(4)))
			write(0xff05, 0xff)
			for i := 0; i < 1100 && m.Read(0xff05) != 0x00; i++ {
				m.RunCycles(1)
			}
			m.RunCycles(uint64(r.Intn(4)))
			switch r.Intn(3) {
			case 0:
				write(0xff07, uint8(r.Intn(4)))
			case 1:
				write(0xff04, 0)
			default:
				write(0xff05, r.Byte())
			}
			m.RunCycles(uint64(r.Intn(80)))
			res.Probe("timer_warmup")
		})
	}
	if pi == nil && r.Chance(1, 2) {
		// sound warm-up: all four channels playing, channel 1 with its sweep unit armed at a
		// frequency just below the overflow limit, so that status bits are there to be lost
		pi = machine.Protect(func() {
			write(0xff26, 0x80)
			shift := uint8(r.Range(1, 7))
			write(0xff10, uint8(r.Range(1, 7))<<4|shift)
			write(0xff12, 0xf0|r.Byte()&0x07)
			// the largest f with f + (f >> shift) <= 2047, minus a little
			f := 2047
			for f+(f>>shift) > 2047 {
				f--
			}
			f -= r.Intn(3)
			f &^= 0xff // the low byte is what a later NR13 write supplies
			write(0xff13, 0x00)
			write(0xff14, 0x80|uint8(f>>8))
			write(0xff17, 0xf0)
			write(0xff19, 0x80|r.Byte()&0x07)
			write(0xff1a, 0x80)
			write(0xff1c, 0x20)
			write(0xff1e, 0x80|r.Byte()&0x07)
			write(0xff21, 0xf0)
			write(0xff23, 0x80)
			m.RunCycles(uint64(r.Intn(200)))
			if m.Read(0xff26)&0x0f == 0x0f {
				res.Probe("sound_warmup_all_channels_on")
			}
		})
	}
	if pi != nil {
		if pi.Emulator {
			res.Sig("warmup-panic") // C11's business
			return res
		}
		res.Harness = pi.Value + "\n" + pi.Stack
		return res
	}
	snap := func(dst *[0x10000]uint8) {
		for a := 0; a < 0x10000; a++ {
			if a >= 0xfe00 && a < 0xfea0 {
				continue
			}
			dst[a] = m.Read(uint16(a))
		}
		o := m.PeekOAM()
		copy(dst[0xfe00:0xfea0], o[:])
	}
	var before, after [0x10000]uint8
	blindCtl := uint16(0) // address of a control write performed without observation (0: none)
	dg := engine.NewDigest()
	ei := 0
	base := m.N // the judged writes are timed relative to the end of the warm-up
	for m.N < base+sc.Cycles && res.Violation == nil {
		for ei < len(sc.Events) && base+sc.Events[ei].At <= m.N {
			ev := sc.Events[ei]
			ei++
			if ev.A == 0xfffc || ev.A == 0xfffd || ev.A == 0xdffc || ev.A == 0xdffd {
				continue // the parked CPU's loop (and its echo): would change what the CPU executes
			}
			lcdOn := m.Read(0xff40)&0x80 != 0
			sndOn := m.Read(0xff26)&0x80 != 0
			dmaOn, _ := m.OAM.VerifDMA()
			if blindCtl == 0 {
				snap(&before)
			}
			if ev.S == "blind" {
				// not looked at: judged together with the store that follows
				write(ev.A, ev.V)
				blindCtl = ev.A
				res.Fault("bus_write")
				continue
			}
			// OAM as a guest would read it during DMA is FF: the bus view matters for FE00-FEFF when a DMA starts
			write(ev.A, ev.V)
			snap(&after)
			res.Probe("diffs")
			res.Fault("bus_write")
			if lcdOn {
				res.Probe("write_with_lcd_on")
			}
			if dmaOn {
				res.Probe("write_with_dma_running")
			}
			if sndOn {
				res.Probe("write_with_sound_on")
			}
			changedOther := false
			if ev.A >= 0xff04 && ev.A <= 0xff07 {
				want := [4]uint8{tim.DIV(), tim.TIMA, tim.TMA, tim.ReadTAC()}
				for i := 0; i < 4; i++ {
					if after[0xff04+i] != want[i] && (before[0xff04+i] != after[0xff04+i] || i == int(ev.A-0xff04)) {
						res.Fail(fmt.Sprintf("C07/%s-effect-on-%04x", c07Name(ev.A), 0xff04+i), m.N, "write %04x<-%02x: %04x reads %02x afterwards (before: %02x), documented %02x (reference timer phase %d)", ev.A, ev.V, 0xff04+i, after[0xff04+i], before[0xff04+i], want[i], tim.Phase)
						break
					}
				}
			}
			for c := 0; c < 0x10000; c++ {
				if before[c] == after[c] {
					continue
				}
				dg.U16(uint16(c))
				dg.Byte(after[c])
				if uint16(c) != ev.A {
					changedOther = true
				}
				if blindCtl != 0 && c07Allowed(blindCtl, uint16(c)) {
					continue
				}
				if c == 0xff26 && ev.A != 0xff26 && res.Violation == nil {
					// a channel's registers switch that channel on or off, not another one
					if bit, ok := map[uint16]uint8{0xff10: 1, 0xff12: 1, 0xff14: 1, 0xff17: 2, 0xff19: 2, 0xff1a: 4, 0xff1e: 4, 0xff21: 8, 0xff23: 8}[ev.A]; ok && blindCtl == 0 {
						if d := (before[c] ^ after[c]) &^ bit; d != 0 {
							res.Fail(fmt.Sprintf("C07/%s-changes-other-channel-status", c07Name(ev.A)), m.N, "write %04x<-%02x changed NR52 from %02x to %02x: the status bit of another channel (mask %02x) changed", ev.A, ev.V, before[c], after[c], d)
							break
						}
					}
				}
				if !c07Allowed(ev.A, uint16(c)) {
					res.Fail(fmt.Sprintf("C07/%s-changes-%s", c07Name(ev.A), c07Name(uint16(c))), m.N, "write %04x<-%02x changed %04x from %02x to %02x (LCD on=%v, sound on=%v, DMA running=%v), which is not a documented effect of that write", ev.A, ev.V, c, before[c], after[c], lcdOn, sndOn, dmaOn)
					break
				}
			}
			if blindCtl != 0 && res.Violation == nil {
				res.Probe("control_write_and_store_unobserved_in_between")
			}
			if cartWrite := ev.A < 0x8000 || (ev.A >= 0xa000 && ev.A < 0xc000); (cartWrite || blindCtl != 0) && sc.Cart.Kind != "rom" && res.Violation == nil {
				// what a write to the cartridge leaves in the two ROM windows and the RAM window is what the
				// reference cartridge says (a byte stored where it does not belong shows up when its bank is
				// selected later); clock registers of an MBC3 are C10's business
				clock := sc.Cart.Kind == "mbc3" && ct.RamB >= 0x08
				for c := 0; c < 0xc000; c++ {
					if c >= 0x8000 && c < 0xa000 {
						continue
					}
					if c >= 0xa000 && clock {
						break
					}
					if want, _ := ct.Read(uint16(c)); after[c] != want {
						res.Fail("C07/cart-windows-after-write", m.N, "write %04x<-%02x (control write before it unobserved: %v): %04x reads %02x afterwards, the reference cartridge says %02x", ev.A, ev.V, blindCtl != 0, c, after[c], want)
						break
					}
				}
			}
			blindCtl = 0
			if changedOther && res.Violation == nil {
				res.Probe("write_changed_other_location_legally")
			}
			res.Sig(fmt.Sprintf("%s/lcd=%v/snd=%v/dma=%v/other=%v", c07Name(ev.A), lcdOn, sndOn, dmaOn, changedOther))
			if res.Violation != nil {
				break
			}
		}
		next := base + sc.Cycles
		if ei < len(sc.Events) && base+sc.Events[ei].At < next {
			next = base + sc.Events[ei].At
		}
		if next <= m.N {
			next = m.N + 1
		}
		pi := machine.Protect(func() { m.RunCycles(next - m.N) })
		if pi != nil {
			if pi.Emulator {
				res.Sig("run-panic")
				return res
			}
			res.Harness = pi.Value
			return res
		}
	}
	res.Cycles = m.N
	res.Digest = uint64(dg)
	return res
}
