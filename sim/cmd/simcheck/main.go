// simcheck: deterministic simulation checks for scottyw/tetromino.
package main

import (
	"flag"
	"fmt"
	"os"
	"runtime"
	"sort"
	"strconv"
	"strings"

	"verifsim/engine"
	"verifsim/machine"
	"verifsim/props"
)

func main() {
	prop := flag.String("prop", "", "property id (C01..C26)")
	tier := flag.String("tier", "quick", "quick|thorough")
	seedF := flag.String("seed", "", "seed (default VERIF_SEED or 1)")
	workers := flag.Int("workers", 0, "worker processes (default: number of CPUs)")
	worker := flag.Bool("worker", false, "internal: worker mode")
	from := flag.Int("from", 0, "internal")
	to := flag.Int("to", 0, "internal")
	stride := flag.Int("stride", 1, "internal")
	digests := flag.Bool("digests", false, "internal: report per-scenario digests")
	replay := flag.String("replay", "", "replay file")
	verif := flag.String("verif", "/verif", "verif directory")
	show := flag.Int("show", -1, "print the scenario with this index and exit")
	one := flag.Int("one", -1, "execute only the scenario with this index, in-process, verbosely")
	selftest := flag.Bool("selftest", false, "determinism self-test of the harness")
	trace := flag.String("trace", "", "internal: print the trace digests of a scenario file (C24 child process)")
	inner := flag.String("inner", "", "internal: execute one scenario file and report (child process)")
	concurrent := flag.String("concurrent", "", "internal: run a C25 class-concurrent scenario file (race-detector build, child process)")
	flag.Parse()

	engine.PanicClassifier = machine.ClassifyStack
	defer machine.RemoveScratch()

	seed := uint64(1)
	s := *seedF
	if s == "" {
		s = os.Getenv("VERIF_SEED")
	}
	if s != "" {
		v, err := strconv.ParseUint(strings.TrimSpace(s), 10, 64)
		if err != nil {
			iv, err2 := strconv.ParseInt(strings.TrimSpace(s), 10, 64)
			if err2 != nil {
				fmt.Printf("HARNESS-FAULT bad seed %q\n", s)
				exit(2)
			}
			v = uint64(iv)
		}
		seed = v
	}
	if t := os.Getenv("VERIF_TIER"); t != "" && !isFlagSet("tier") {
		*tier = t
	}

	if *trace != "" {
		exit(props.TraceJSON(*trace))
	}
	if *concurrent != "" {
		exit(props.ConcurrentJSON(*concurrent))
	}
	if *inner != "" {
		sc, err := engine.LoadScenario(*inner)
		if err != nil {
			fmt.Printf("INNER-DONE harness %v\n", err)
			exit(2)
		}
		p := engine.Lookup(sc.Property)
		if p == nil {
			fmt.Printf("INNER-DONE harness unknown property\n")
			exit(2)
		}
		exit(engine.Inner(p, *inner))
	}
	if *replay != "" {
		sc, err := engine.LoadScenario(*replay)
		if err != nil {
			fmt.Printf("HARNESS-FAULT cannot load replay: %v\n", err)
			exit(2)
		}
		p := engine.Lookup(sc.Property)
		if p == nil {
			fmt.Printf("HARNESS-FAULT unknown property %q in replay\n", sc.Property)
			exit(2)
		}
		exit(engine.Replay(p, *replay))
	}

	if *prop == "list" {
		ids := engine.IDs()
		sort.Strings(ids)
		fmt.Println(strings.Join(ids, " "))
		exit(0)
	}
	p := engine.Lookup(*prop)
	if p == nil {
		fmt.Printf("HARNESS-FAULT unknown property %q (have %v)\n", *prop, engine.IDs())
		exit(2)
	}
	if *show >= 0 {
		os.Stdout.Write(engine.ScenarioFor(p, seed, *show, *tier).JSON())
		fmt.Println()
		exit(0)
	}
	if *one >= 0 {
		sc := engine.ScenarioFor(p, seed, *one, *tier)
		r := engine.SafeExecute(p, sc)
		fmt.Printf("index=%d cycles=%d sigs=%d digest=%016x\n", *one, r.Cycles, len(r.Sigs), r.Digest)
		if r.Harness != "" {
			fmt.Printf("HARNESS-FAULT %s\n", r.Harness)
			exit(2)
		}
		if r.Violation != nil {
			fmt.Printf("violation %s\n", r.Violation)
			exit(1)
		}
		exit(0)
	}
	if *worker {
		engine.RunWorker(p, seed, *tier, *from, *to, *stride, *digests)
		exit(0)
	}
	self, err := os.Executable()
	if err != nil {
		fmt.Printf("HARNESS-FAULT %v\n", err)
		exit(2)
	}
	w := *workers
	if w <= 0 {
		w = runtime.NumCPU()
	}
	if *selftest {
		exit(engine.SelfTest(p, seed, *tier, self, w))
	}
	exit(engine.RunBatch(engine.BatchConfig{Prop: p, Tier: *tier, Seed: seed, Workers: w, VerifDir: *verif, SelfExe: self}))
}

func isFlagSet(name string) bool {
	set := false
	flag.Visit(func(f *flag.Flag) {
		if f.Name == name {
			set = true
		}
	})
	return set
}

func exit(code int) {
	machine.RemoveScratch()
	os.Exit(code)
}
