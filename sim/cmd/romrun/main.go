// romrun runs test ROMs from /repo/gameboy/testdata under the simulator (development aid).
package main

import (
	"fmt"
	"os"

	"verifsim/machine"
)

func main() {
	defer machine.RemoveScratch()
	fail := 0
	for _, rel := range os.Args[1:] {
		r, pi := machine.RunROM(rel, 120_000_000, nil)
		st := "FAIL"
		if r.Pass {
			st = "pass"
		} else {
			fail++
		}
		if pi != nil {
			st = "PANIC " + pi.Value
		}
		fmt.Printf("%-6s done=%v cycles=%d %s regs=%v\n", st, r.Done, r.Cycles, rel, r.Regs)
	}
	machine.RemoveScratch()
	if fail > 0 {
		os.Exit(1)
	}
}
