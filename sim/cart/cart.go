// Package cart builds cartridge images for the simulated disk.
package cart

import (
	"fmt"
	"os"
	"path/filepath"

	"verifsim/engine"
)

// RomBanks returns the number of 16 KiB pages declared by header byte 0148.
func RomBanks(code uint8) int {
	if code > 8 {
		return 0
	}
	return 2 << code
}

// RamBanks returns the number of 8 KiB banks declared by header byte 0149, as the
// statement of C09 reads it (none declared -> a single bank).
func RamBanks(code uint8) int {
	switch code {
	case 1, 2:
		return 1
	case 3:
		return 4
	case 4:
		return 16
	case 5:
		return 8
	}
	return 1
}

func pageByte(fill uint64, page, off int) byte {
	x := fill ^ uint64(page)*0x9e3779b97f4a7c15 ^ uint64(off)*0xc2b2ae3d27d4eb4f
	x ^= x >> 29
	x *= 0xbf58476d1ce4e5b9
	x ^= x >> 32
	return byte(x)
}

// Build creates the image for a spec. Every page is filled with a page-dependent pattern
// so that the bytes read through any window identify the mapped page; the header and the
// program are then laid over page 0 (and following bytes).
func Build(spec engine.CartSpec) ([]byte, error) {
	switch spec.Kind {
	case "raw":
		if spec.RawHex != "" {
			return engine.UnHex(spec.RawHex), nil
		}
		r := engine.NewRand(spec.RawSeed)
		img := r.Bytes(spec.RawLen)
		if len(img) > 0x149 {
			// header bytes are chosen explicitly so that the scenario says what it tests
			img[0x147] = spec.Type
			img[0x148] = spec.RomCode
			img[0x149] = spec.RamCode
		}
		return img, nil
	case "file":
		return os.ReadFile(filepath.Join("/repo/gameboy/testdata", spec.File))
	}
	banks := RomBanks(spec.RomCode)
	if banks == 0 {
		return nil, fmt.Errorf("bad rom code %d", spec.RomCode)
	}
	img := make([]byte, banks*0x4000)
	for p := 0; p < banks; p++ {
		base := p * 0x4000
		for o := 0; o < 0x4000; o++ {
			img[base+o] = pageByte(spec.FillSeed, p, o)
		}
		// explicit signature as well (page number, little endian, and complement)
		img[base+0x3ff0] = byte(p)
		img[base+0x3ff1] = byte(p >> 8)
		img[base+0x3ff2] = ^byte(p)
		img[base+0x3ff3] = ^byte(p >> 8)
	}
	// interrupt vectors and rst targets: RETI at 40..60, RET at rst targets
	for v := 0x00; v <= 0x38; v += 8 {
		img[v] = 0xc9
	}
	// interrupt handlers: NOP ; RETI (they must not touch registers: generated programs keep
	// jump targets in registers)
	for v := 0x40; v <= 0x60; v += 8 {
		img[v] = 0x00
		img[v+1] = 0xd9
	}
	if spec.Handler != "" {
		h := engine.UnHex(spec.Handler)
		if len(h) > 8 {
			return nil, fmt.Errorf("handler longer than 8 bytes")
		}
		for v := 0x40; v <= 0x60; v += 8 {
			copy(img[v:], h)
			if spec.HandlerTag {
				// a handler that identifies itself: every byte A5 becomes the low byte of its vector
				for i := range h {
					if h[i] == 0xa5 {
						img[v+i] = byte(v)
					}
				}
			}
		}
	}
	entry := spec.Entry
	if entry == 0 {
		entry = 0x0150
	}
	img[0x100] = 0x00
	img[0x101] = 0xc3
	img[0x102] = byte(entry)
	img[0x103] = byte(entry >> 8)
	img[0x147] = spec.Type
	img[0x148] = spec.RomCode
	img[0x149] = spec.RamCode
	if spec.Program != "" {
		prog := engine.UnHex(spec.Program)
		if int(entry)+len(prog) > len(img) {
			return nil, fmt.Errorf("program does not fit")
		}
		copy(img[entry:], prog)
	}
	if spec.CollidingPages && banks >= 8 {
		// distinct pages that a checksum cannot tell apart: page j is page i with the CRC-32 generator
		// polynomial XORed in (equal CRC-32), page k is page i with two bytes swapped (equal sum, XOR,
		// byte histogram). The differing bytes sit where the checks look (the signature bytes).
		i := 2 + int(spec.FillSeed%3)
		j, k := banks-1-int(spec.FillSeed>>8%2), banks/2+1
		copy(img[j*0x4000:(j+1)*0x4000], img[i*0x4000:(i+1)*0x4000])
		for n, b := range []byte{0x41, 0x06, 0x71, 0xdb, 0x01} {
			img[j*0x4000+0x3ff0+n] ^= b
		}
		if k != i && k != j {
			copy(img[k*0x4000:(k+1)*0x4000], img[i*0x4000:(i+1)*0x4000])
			img[k*0x4000+0x3ff0], img[k*0x4000+0x3ff2] = img[k*0x4000+0x3ff2], img[k*0x4000+0x3ff0]
		}
	}
	if spec.HeaderEveryPage {
		// like a multi-game cartridge: every page starts with a cartridge header of its own (logo, title,
		// type and size bytes); the controller's behaviour is that of the declared type all the same
		for p := 1; p < banks; p++ {
			base := p * 0x4000
			copy(img[base+0x104:], nintendoLogo[:])
			copy(img[base+0x134:base+0x150], img[0x134:0x150])
		}
		copy(img[0x104:], nintendoLogo[:])
	}
	if spec.Program2 != "" {
		// a second program at the same window address in another page (code that switches the bank it
		// is executing from)
		prog := engine.UnHex(spec.Program2)
		off := spec.Page2*0x4000 + int(entry&0x3fff)
		if spec.Page2 >= banks || off+len(prog) > len(img) {
			return nil, fmt.Errorf("second program does not fit")
		}
		copy(img[off:], prog)
	}
	return img, nil
}

var nintendoLogo = [48]byte{0xce, 0xed, 0x66, 0x66, 0xcc, 0x0d, 0x00, 0x0b, 0x03, 0x73, 0x00, 0x83, 0x00, 0x0c, 0x00, 0x0d,
	0x00, 0x08, 0x11, 0x1f, 0x88, 0x89, 0x00, 0x0e, 0xdc, 0xcc, 0x6e, 0xe6, 0xdd, 0xdd, 0xd9, 0x99,
	0xbb, 0xbb, 0x67, 0x63, 0x6e, 0x0e, 0xec, 0xcc, 0xdd, 0xdc, 0x99, 0x9f, 0xbb, 0xb9, 0x33, 0x3e}

// TypeFor returns a header cart-type byte for a controller kind.
func TypeFor(kind string, ram bool) uint8 {
	switch kind {
	case "rom":
		return 0x00
	case "mbc1":
		if ram {
			return 0x03
		}
		return 0x01
	case "mbc2":
		return 0x05
	case "mbc3":
		if ram {
			return 0x13
		}
		return 0x11
	case "mbc3rtc":
		if ram {
			return 0x10
		}
		return 0x0f
	case "mbc5":
		if ram {
			return 0x1b
		}
		return 0x19
	}
	panic("unknown cart kind " + kind)
}

// Simple returns the spec of a small cartridge that runs prog.
func Simple(kind string, prog []byte) engine.CartSpec {
	s := engine.CartSpec{Kind: kind, RomCode: 0, RamCode: 0, Program: engine.Hex(prog)}
	switch kind {
	case "rom":
		s.Type = 0
	default:
		s.Type = TypeFor(kind, true)
		s.RamCode = 3
		s.RomCode = 1
	}
	return s
}
