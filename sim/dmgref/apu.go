package dmgref

// APU is the reference model of the DMG sound unit's register file, channel status bits,
// length counters and channel-1 sweep, after blargg's "Game Boy Sound Operation" and Pan Docs.
// Envelope and sample amplitudes are not modelled (outside C18/C19).
//
// Time: the frame sequencer steps at 512 Hz (every 2048 machine cycles). The phase of that
// grid relative to the observer is not documented for an emulator, so the model is told when
// a sequencer step happens (Step), by an oracle that calibrates the grid once per run.

var apuReadMask = map[uint16]uint8{
	0xff10: 0x80, 0xff11: 0x3f, 0xff12: 0x00, 0xff13: 0xff, 0xff14: 0xbf,
	0xff16: 0x3f, 0xff17: 0x00, 0xff18: 0xff, 0xff19: 0xbf,
	0xff1a: 0x7f, 0xff1b: 0xff, 0xff1c: 0x9f, 0xff1d: 0xff, 0xff1e: 0xbf,
	0xff20: 0xff, 0xff21: 0x00, 0xff22: 0x00, 0xff23: 0xbf,
	0xff24: 0x00, 0xff25: 0x00,
}

// APUReadMask returns the OR-mask of a sound register (ok=false: not a sound register).
func APUReadMask(a uint16) (uint8, bool) {
	m, ok := apuReadMask[a]
	return m, ok
}

type apuChan struct {
	On     bool // NR52 status bit
	DAC    bool
	Len    int
	LenEn  bool
	maxLen int
}

type APU struct {
	Power bool
	Reg   [0x30]uint8 // FF10-FF3F raw accepted values (wave RAM in the last 16)
	Ch    [4]apuChan
	Step7 int // index of the NEXT frame sequencer step (0..7)

	// channel 1 sweep
	Shadow    int
	SwEnabled bool
	SwTimer   int
	SwNegUsed bool
}

func NewAPU() *APU {
	a := &APU{}
	for i := range a.Ch {
		a.Ch[i].maxLen = 64
	}
	a.Ch[2].maxLen = 256
	return a
}

func (a *APU) freq1() int { return int(a.Reg[0x03]) | int(a.Reg[0x04]&7)<<8 }

// nextStepSkipsLength: the next sequencer step does not clock the length counters
// ("first half of a length period").
func (a *APU) nextStepSkipsLength() bool { return a.Step7%2 == 1 }

// StepSequencer performs one 512 Hz frame sequencer step.
func (a *APU) StepSequencer() {
	s := a.Step7
	a.Step7 = (a.Step7 + 1) % 8
	if !a.Power {
		return
	}
	if s%2 == 0 {
		for i := range a.Ch {
			c := &a.Ch[i]
			if c.LenEn && c.Len > 0 {
				c.Len--
				if c.Len == 0 {
					c.On = false
				}
			}
		}
	}
	if s == 2 || s == 6 {
		a.sweepClock()
	}
}

func (a *APU) sweepCalc() int {
	shift := int(a.Reg[0x00] & 7)
	d := a.Shadow >> uint(shift)
	nf := a.Shadow + d
	if a.Reg[0x00]&0x08 != 0 {
		nf = a.Shadow - d
		a.SwNegUsed = true
	}
	if nf > 2047 {
		a.Ch[0].On = false
	}
	return nf
}

func (a *APU) sweepClock() {
	if !a.SwEnabled {
		return
	}
	a.SwTimer--
	if a.SwTimer > 0 {
		return
	}
	period := int(a.Reg[0x00] >> 4 & 7)
	if period == 0 {
		a.SwTimer = 8
		return
	}
	a.SwTimer = period
	nf := a.sweepCalc()
	if nf <= 2047 && a.Reg[0x00]&7 != 0 {
		a.Shadow = nf
		a.Reg[0x03] = uint8(nf)
		a.Reg[0x04] = a.Reg[0x04]&^7 | uint8(nf>>8)&7
		a.sweepCalc()
	}
}

// Write applies a guest write to FF10-FF3F / NR52 (FF26).
func (a *APU) Write(addr uint16, v uint8) {
	if addr == 0xff26 {
		on := v&0x80 != 0
		if a.Power && !on {
			for i := 0; i < 0x16; i++ { // NR10..NR51
				a.Reg[i] = 0
			}
			for i := range a.Ch {
				a.Ch[i].On, a.Ch[i].DAC, a.Ch[i].LenEn = false, false, false
			}
			a.SwEnabled, a.SwNegUsed = false, false
		} else if !a.Power && on {
			a.Step7 = 0
		}
		a.Power = on
		return
	}
	if addr >= 0xff30 && addr <= 0xff3f {
		a.Reg[addr-0xff10] = v // judged only while channel 3 is off
		return
	}
	if _, ok := apuReadMask[addr]; !ok {
		return
	}
	i := int(addr - 0xff10)
	if !a.Power {
		// only the length parts stay writable (DMG)
		switch addr {
		case 0xff11:
			a.Ch[0].Len = 64 - int(v&0x3f)
		case 0xff16:
			a.Ch[1].Len = 64 - int(v&0x3f)
		case 0xff1b:
			a.Ch[2].Len = 256 - int(v)
		case 0xff20:
			a.Ch[3].Len = 64 - int(v&0x3f)
		}
		return
	}
	old := a.Reg[i]
	a.Reg[i] = v
	switch addr {
	case 0xff10:
		if old&0x08 != 0 && v&0x08 == 0 && a.SwNegUsed {
			a.Ch[0].On = false
		}
		if v&0x08 == 0 {
			a.SwNegUsed = false
		}
	case 0xff11:
		a.Ch[0].Len = 64 - int(v&0x3f)
	case 0xff16:
		a.Ch[1].Len = 64 - int(v&0x3f)
	case 0xff1b:
		a.Ch[2].Len = 256 - int(v)
	case 0xff20:
		a.Ch[3].Len = 64 - int(v&0x3f)
	case 0xff12, 0xff17, 0xff21:
		c := &a.Ch[map[uint16]int{0xff12: 0, 0xff17: 1, 0xff21: 3}[addr]]
		c.DAC = v&0xf8 != 0
		if !c.DAC {
			c.On = false
		}
	case 0xff1a:
		a.Ch[2].DAC = v&0x80 != 0
		if !a.Ch[2].DAC {
			a.Ch[2].On = false
		}
	case 0xff14, 0xff19, 0xff1e, 0xff23:
		n := map[uint16]int{0xff14: 0, 0xff19: 1, 0xff1e: 2, 0xff23: 3}[addr]
		c := &a.Ch[n]
		newEn := v&0x40 != 0
		trig := v&0x80 != 0
		if a.nextStepSkipsLength() && !c.LenEn && newEn && c.Len > 0 {
			c.Len--
			if c.Len == 0 && !trig {
				c.On = false
			}
		}
		c.LenEn = newEn
		if trig {
			c.On = true
			if c.Len == 0 {
				c.Len = c.maxLen
				if c.LenEn && a.nextStepSkipsLength() {
					c.Len--
				}
			}
			if n == 0 {
				a.Shadow = a.freq1()
				period := int(a.Reg[0x00] >> 4 & 7)
				a.SwTimer = period
				if period == 0 {
					a.SwTimer = 8
				}
				a.SwEnabled = period != 0 || a.Reg[0x00]&7 != 0
				a.SwNegUsed = false
				if a.Reg[0x00]&7 != 0 {
					a.sweepCalc()
				}
			}
			if !c.DAC {
				c.On = false
			}
		}
	}
}

// ReadReg returns the documented read-back of a sound register (not NR52, not wave RAM).
func (a *APU) ReadReg(addr uint16) uint8 {
	m := apuReadMask[addr]
	return a.Reg[addr-0xff10] | m
}

// Status returns NR52 as documented: 70 | power | channel status bits.
func (a *APU) Status() uint8 {
	v := uint8(0x70)
	if a.Power {
		v |= 0x80
	}
	for i := range a.Ch {
		if a.Ch[i].On {
			v |= 1 << uint(i)
		}
	}
	return v
}
