package dmgref

// Scene is a constant video state of the DMG.
type Scene struct {
	VRAM [0x2000]uint8
	OAM  [0xa0]uint8
	LCDC, SCX, SCY, WX, WY, BGP, OBP0, OBP1 uint8
}

func (s *Scene) tilePixel(tileAddr int, px, py int) uint8 {
	lo := s.VRAM[tileAddr+2*py]
	hi := s.VRAM[tileAddr+2*py+1]
	bit := uint(7 - px)
	return (hi>>bit&1)<<1 | lo>>bit&1
}

func (s *Scene) mapPixel(mapBase int, x, y int) uint8 {
	tile := s.VRAM[mapBase+(y/8)*32+x/8]
	addr := int(tile) * 16
	if s.LCDC&0x10 == 0 {
		addr = 0x1000 + int(int8(tile))*16
	}
	return s.tilePixel(addr, x%8, y%8)
}

// Compose returns the shade (0 white .. 3 black) of every pixel of the 160x144 frame, as the
// DMG composes a constant scene: background, window over it, objects on top by priority.
// (8x8 objects; no ten-per-line limit is applied: scenes stay within it.)
func (s *Scene) Compose() *[144][160]uint8 {
	var out [144][160]uint8
	pal := func(p uint8, c uint8) uint8 { return p >> (2 * c) & 3 }
	bgMap, winMap := 0x1800, 0x1800
	if s.LCDC&0x08 != 0 {
		bgMap = 0x1c00
	}
	if s.LCDC&0x40 != 0 {
		winMap = 0x1c00
	}
	for y := 0; y < 144; y++ {
		for x := 0; x < 160; x++ {
			var bgc uint8
			if s.LCDC&0x01 != 0 {
				bgc = s.mapPixel(bgMap, (x+int(s.SCX))&255, (y+int(s.SCY))&255)
			}
			if s.LCDC&0x20 != 0 && int(s.WX) <= 166 && int(s.WY) <= 143 && x >= int(s.WX)-7 && y >= int(s.WY) {
				bgc = s.mapPixel(winMap, x-(int(s.WX)-7), y-int(s.WY))
			}
			shade := pal(s.BGP, bgc)
			if s.LCDC&0x02 != 0 {
				// the opaque pixel of the object with the smallest X (then lowest OAM index) wins
				best := -1
				bestX := 0
				var bc uint8
				for i := 0; i < 40; i++ {
					oy, ox := int(s.OAM[4*i])-16, int(s.OAM[4*i+1])-8
					if y < oy || y >= oy+8 || x < ox || x >= ox+8 {
						continue
					}
					attr := s.OAM[4*i+3]
					px, py := x-ox, y-oy
					if attr&0x20 != 0 {
						px = 7 - px
					}
					if attr&0x40 != 0 {
						py = 7 - py
					}
					c := s.tilePixel(int(s.OAM[4*i+2])*16, px, py)
					if c == 0 {
						continue
					}
					if best < 0 || ox < bestX {
						best, bestX, bc = i, ox, c
					}
				}
				if best >= 0 {
					attr := s.OAM[4*best+3]
					if attr&0x80 == 0 || bgc == 0 {
						p := s.OBP0
						if attr&0x10 != 0 {
							p = s.OBP1
						}
						shade = pal(p, bc)
					}
				}
			}
			out[y][x] = shade
		}
	}
	return &out
}
