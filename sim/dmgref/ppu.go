package dmgref

// PPUTiming is the reference line/mode counter of the DMG LCD controller, anchored at the
// boundary where LCDC bit 7 goes from 0 to 1 (see DESIGN.md A.4).
type PPUTiming struct {
	On    bool
	Line  int // 0..153
	Pos   int // position within the line of the current observation; -1 right after switch-on
	First bool // the first line after switching on is 2 cycles shorter (its mode-0 run is 51)
}

// PPUEvents are the things that begin at the observation reached by a Tick.
type PPUEvents struct {
	LineStart     bool // a new line begins (Line is its number)
	SwitchOnStart bool // the first position after switching on (line 0)
	Mode0Entry    bool // HBlank begins (lines 0-143)
	VBlankStart   bool // line 144 begins
}

func (p *PPUTiming) SwitchOn() {
	p.On, p.Line, p.Pos, p.First = true, 0, -1, true
}

func (p *PPUTiming) SwitchOff() {
	p.On, p.Line, p.Pos, p.First = false, 0, 0, false
}

func (p *PPUTiming) lineLen() int {
	if p.First {
		return 112
	}
	return 114
}

// Tick advances one machine cycle.
func (p *PPUTiming) Tick() (ev PPUEvents) {
	if !p.On {
		return
	}
	if p.Pos == -1 {
		p.Pos = 0
		ev.SwitchOnStart = true
		return
	}
	p.Pos++
	if p.Pos >= p.lineLen() {
		p.Pos = 0
		p.First = false
		p.Line++
		if p.Line == 154 {
			p.Line = 0
		}
		ev.LineStart = true
		if p.Line == 144 {
			ev.VBlankStart = true
		}
	}
	if p.Pos == 61 && p.Line < 144 {
		ev.Mode0Entry = true
	}
	return
}

func (p *PPUTiming) LY() uint8 {
	if !p.On {
		return 0
	}
	return uint8(p.Line)
}

func (p *PPUTiming) Mode() uint8 {
	switch {
	case !p.On:
		return 0
	case p.Line >= 144:
		return 1
	case p.Pos < 20:
		return 2
	case p.Pos < 61:
		return 3
	}
	return 0
}
