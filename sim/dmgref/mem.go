package dmgref

// Mem is the reference DMG memory map for read-back checks (C06): plain regions, echo, the
// unusable area, unmapped I/O, register masks, the reference timer and cartridge behind it.
// Registers whose value the statement of C06 does not determine in the current state answer
// known=false.
type Mem struct {
	Cart                                   *Cart
	Timer                                  Timer
	VRAM                                   [0x2000]uint8
	WRAM                                   [0x2000]uint8
	OAM                                    [0xa0]uint8
	HRAM                                   [0x7f]uint8
	IE                                     uint8
	IF                                     uint8 // low five bits as last written
	IFDirty                                uint8 // bits that hardware may have set since the last write
	LCDC                                   uint8
	STAT                                   uint8 // writable bits 3-6
	SCY, SCX, LYC, BGP, OBP0, OBP1, WY, WX uint8
	DMA                                    uint8
	DMAWritten                             bool
	JOYP                                   uint8
	OAMBusy                                int // cycles during which OAM is owned by a DMA transfer
	ovSeen                                 int
}

func NewMem(img []byte, counter uint16) *Mem {
	m := &Mem{Cart: NewCart(img)}
	m.Timer.Reset(counter)
	// power-on register values (Pan Docs, DMG after the boot ROM)
	m.LCDC, m.BGP, m.OBP0, m.OBP1 = 0x91, 0xfc, 0xff, 0xff
	m.IF = 0x01
	m.JOYP = 0x0f
	return m
}

func (m *Mem) LCDOn() bool { return m.LCDC&0x80 != 0 }

// Tick advances one machine cycle.
func (m *Mem) Tick() {
	m.Timer.Tick()
	// an overflow (caused by this tick or by a DIV/TAC write since the last one) requests the
	// timer interrupt at the overflow or at the reload: the bit is not determined from then on
	if m.Timer.Overflows != m.ovSeen || m.Timer.Phase == 2 {
		m.IFDirty |= 0x04
		m.ovSeen = m.Timer.Overflows
	}
	if m.LCDOn() {
		m.IFDirty |= 0x03
	}
	if m.OAMBusy > 0 {
		m.OAMBusy--
	}
	m.Cart.RTC.Tick()
}

// Unmapped reports whether a is an I/O address with nothing behind it on a DMG.
func Unmapped(a uint16) bool {
	switch {
	case a == 0xff03, a >= 0xff08 && a <= 0xff0e, a == 0xff15, a == 0xff1f, a >= 0xff27 && a <= 0xff2f, a >= 0xff4c && a <= 0xff7f:
		return true
	}
	return false
}

// Read returns the documented value at a. mask has a 1 for every bit that is determined.
func (m *Mem) Read(a uint16) (v uint8, mask uint8) {
	switch {
	case a < 0x8000, a >= 0xa000 && a < 0xc000:
		v, known := m.Cart.Read(a)
		if !known {
			if m.Cart.Kind == "mbc2" {
				return 0xf0, 0xf0
			}
			return 0, 0
		}
		return v, 0xff
	case a < 0xa000:
		if m.LCDOn() {
			return 0, 0 // only specified with the LCD off
		}
		return m.VRAM[a-0x8000], 0xff
	case a < 0xe000:
		return m.WRAM[a-0xc000], 0xff
	case a < 0xfe00:
		return m.WRAM[a-0xe000], 0xff
	case a < 0xff00:
		if m.LCDOn() || m.OAMBusy > 0 {
			return 0, 0
		}
		if a >= 0xfea0 {
			return 0x00, 0xff
		}
		return m.OAM[a-0xfe00], 0xff
	case a >= 0xff80 && a < 0xffff:
		return m.HRAM[a-0xff80], 0xff
	case a == 0xffff:
		return m.IE, 0xff
	}
	if Unmapped(a) {
		return 0xff, 0xff
	}
	switch a {
	case 0xff00:
		// no buttons held in these checks: low nibble reads 1s; select bits as written
		return 0xc0 | m.JOYP&0x30 | 0x0f, 0xff
	case 0xff01, 0xff02:
		return 0xff, 0xff // serial registers read FF in this emulator's documented subset (C23)
	case 0xff04:
		return m.Timer.DIV(), 0xff
	case 0xff05:
		return m.Timer.TIMA, 0xff
	case 0xff06:
		return m.Timer.TMA, 0xff
	case 0xff07:
		return m.Timer.ReadTAC(), 0xff
	case 0xff0f:
		// a request bit that is set stays set until it is written or dispatched; only the bits that
		// are clear and that the hardware may have set since are not determined
		return 0xe0 | m.IF, 0xff &^ (m.IFDirty &^ m.IF)
	case 0xff40:
		return m.LCDC, 0xff
	case 0xff41:
		if m.LCDOn() {
			return 0x80 | m.STAT&0x78, 0xf8 // mode and coincidence bits: C13/C14
		}
		return 0x80 | m.STAT&0x78, 0xfb // LCD off: mode 0; coincidence bit not determined
	case 0xff42:
		return m.SCY, 0xff
	case 0xff43:
		return m.SCX, 0xff
	case 0xff44:
		if m.LCDOn() {
			return 0, 0
		}
		return 0, 0xff
	case 0xff45:
		return m.LYC, 0xff
	case 0xff46:
		if !m.DMAWritten {
			return 0, 0 // power-on value not specified by the statement
		}
		return m.DMA, 0xff
	case 0xff47:
		return m.BGP, 0xff
	case 0xff48:
		return m.OBP0, 0xfc // the two lowest bits are unused by the hardware: either read-back accepted
	case 0xff49:
		return m.OBP1, 0xfc
	case 0xff4a:
		return m.WY, 0xff
	case 0xff4b:
		return m.WX, 0xff
	}
	// sound registers and wave RAM: C18
	return 0, 0
}

func (m *Mem) Write(a uint16, v uint8) {
	switch {
	case a < 0x8000, a >= 0xa000 && a < 0xc000:
		m.Cart.Write(a, v)
	case a < 0xa000:
		m.VRAM[a-0x8000] = v
	case a < 0xe000:
		m.WRAM[a-0xc000] = v
	case a < 0xfe00:
		m.WRAM[a-0xe000] = v
	case a < 0xfea0:
		m.OAM[a-0xfe00] = v
	case a < 0xff00:
	case a >= 0xff80 && a < 0xffff:
		m.HRAM[a-0xff80] = v
	case a == 0xffff:
		m.IE = v
	}
	switch a {
	case 0xff00:
		m.JOYP = v
	case 0xff04:
		m.Timer.WriteDIV()
	case 0xff05:
		m.Timer.WriteTIMA(v)
	case 0xff06:
		m.Timer.WriteTMA(v)
	case 0xff07:
		m.Timer.WriteTAC(v)
	case 0xff0f:
		m.IF = v & 0x1f
		m.IFDirty = 0
	case 0xff40:
		m.LCDC = v
	case 0xff41:
		m.STAT = v
	case 0xff42:
		m.SCY = v
	case 0xff43:
		m.SCX = v
	case 0xff45:
		m.LYC = v
	case 0xff46:
		m.DMA = v
		m.DMAWritten = true
		m.OAMBusy = 164
	case 0xff47:
		m.BGP = v
	case 0xff48:
		m.OBP0 = v
	case 0xff49:
		m.OBP1 = v
	case 0xff4a:
		m.WY = v
	case 0xff4b:
		m.WX = v
	}
}
