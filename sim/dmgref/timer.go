// Package dmgref is a small executable reference model of the DMG, written from the
// documentation (Pan Docs, the Game Boy CTR, blargg's and mooneye's notes) and from the
// property statements. It never imports the emulator and copies no table from it.
package dmgref

// Timer is the reference DIV/TIMA/TMA/TAC unit at machine-cycle granularity.
type Timer struct {
	Counter uint16
	TIMA    uint8
	TMA     uint8
	TAC     uint8 // low 3 bits
	sig     bool

	// Phase of an overflow: 0 idle, 1 = cycle A (TIMA reads 00, a TIMA write cancels the
	// reload), 2 = cycle B (the reload cycle: TIMA writes ignored, TMA writes load TIMA).
	Phase   int
	pending bool // an overflow happened in the current cycle; cycle A is the next one

	// bookkeeping for oracles
	Overflows      int  // overflows so far
	Cancelled      bool // the most recent overflow's reload was cancelled by a TIMA write
	EdgeByWrite    bool // the last register write changed the signal level
	LastWriteFell  bool
	LastWriteRose  bool
	OverflowByTick bool // the most recent overflow was caused by the tick (else by a write)
}

var timerBits = [4]uint16{1 << 9, 1 << 3, 1 << 5, 1 << 7}

func (t *Timer) level() bool {
	return t.TAC&4 != 0 && t.Counter&timerBits[t.TAC&3] != 0
}

// Reset puts the model into a defined start state with the signal level consistent.
func (t *Timer) Reset(counter uint16) {
	*t = Timer{Counter: counter}
	t.sig = t.level()
}

func (t *Timer) eval(byTick bool) {
	s := t.level()
	if t.sig && !s {
		t.TIMA++
		if t.TIMA == 0 {
			t.pending = true
			t.Overflows++
			t.Cancelled = false
			t.OverflowByTick = byTick
		}
	}
	t.sig = s
}

// Tick is the end of a machine cycle.
func (t *Timer) Tick() {
	switch t.Phase {
	case 1:
		t.TIMA = t.TMA
		t.Phase = 2
	case 2:
		t.Phase = 0
	}
	t.Counter += 4
	t.eval(true)
	if t.pending {
		t.pending = false
		t.Phase = 1
	}
}

func (t *Timer) write(f func()) {
	before := t.sig
	f()
	t.EdgeByWrite = before != t.sig
	t.LastWriteFell = before && !t.sig
	t.LastWriteRose = !before && t.sig
}

func (t *Timer) WriteDIV() {
	t.write(func() { t.Counter = 0; t.eval(false) })
}

func (t *Timer) WriteTAC(v uint8) {
	t.write(func() { t.TAC = v & 7; t.eval(false) })
}

func (t *Timer) WriteTIMA(v uint8) {
	t.EdgeByWrite, t.LastWriteFell, t.LastWriteRose = false, false, false
	if t.Phase == 2 {
		return
	}
	t.TIMA = v
	if t.Phase == 1 {
		t.Phase = 0
		t.Cancelled = true
	}
}

func (t *Timer) WriteTMA(v uint8) {
	t.EdgeByWrite, t.LastWriteFell, t.LastWriteRose = false, false, false
	t.TMA = v
	if t.Phase == 2 {
		t.TIMA = v
	}
}

func (t *Timer) DIV() uint8     { return uint8(t.Counter >> 8) }
func (t *Timer) ReadTAC() uint8 { return 0xf8 | t.TAC }

// InWindow reports whether an overflow is being processed (pending, cycle A or cycle B).
func (t *Timer) InWindow() bool { return t.pending || t.Phase != 0 }

// LevelNow is the current level of the (enable AND selected bit) signal.
func (t *Timer) LevelNow() bool { return t.level() }

// LevelAfterTick is the level the signal will have after the next tick if no write intervenes.
func (t *Timer) LevelAfterTick() bool {
	return t.TAC&4 != 0 && (t.Counter+4)&timerBits[t.TAC&3] != 0
}
