package dmgref

// Reference cartridge controllers, from the documented register semantics (Pan Docs, the
// mooneye MBC notes) and the statements of C08-C10. The model keeps the image and answers
// "which byte is visible at this address".

type Cart struct {
	Kind     string // rom, mbc1, mbc2, mbc3, mbc5
	Image    []byte
	RomBanks int
	RamBanks int
	HasRTC   bool

	RAM [][]byte // RamBanks x 8 KiB (MBC2: one bank of 512 cells, upper nibble forced to 1 on read)
	// whether a RAM cell has ever been written (MBC2 power-on content of the 4 data bits is
	// not specified)
	Written [][]bool

	RamOn bool
	// MBC1
	Bank1, Bank2 uint8
	Mode         uint8
	// MBC2/3/5
	RomB uint16
	RamB uint8 // MBC3: 00-07 RAM bank, 08-0C RTC register; MBC5: 4 bits
	// MBC3 latch
	LatchLow bool
	RTC      RTC
}

// NewCart builds the model for an image. kind is derived from the header type byte.
func NewCart(img []byte) *Cart {
	c := &Cart{Image: img}
	t := img[0x147]
	switch t {
	case 0x00:
		c.Kind = "rom"
	case 0x01, 0x02, 0x03:
		c.Kind = "mbc1"
	case 0x05, 0x06:
		c.Kind = "mbc2"
	case 0x0f, 0x10, 0x11, 0x12, 0x13:
		c.Kind = "mbc3"
		c.HasRTC = true // the statement does not separate timer-less MBC3 parts
	case 0x19, 0x1a, 0x1b, 0x1c, 0x1d, 0x1e:
		c.Kind = "mbc5"
	default:
		c.Kind = "unsupported"
	}
	c.RomBanks = len(img) / 0x4000
	switch img[0x149] {
	case 1, 2:
		c.RamBanks = 1
	case 3:
		c.RamBanks = 4
	case 4:
		c.RamBanks = 16
	case 5:
		c.RamBanks = 8
	default:
		c.RamBanks = 1
	}
	size := 0x2000
	if c.Kind == "mbc2" {
		c.RamBanks = 1
		size = 512
	}
	if c.Kind == "rom" {
		c.RamBanks = 0
	}
	for i := 0; i < c.RamBanks; i++ {
		b := make([]byte, size)
		for j := range b {
			b[j] = 0xff
		}
		c.RAM = append(c.RAM, b)
		c.Written = append(c.Written, make([]bool, size))
	}
	c.Bank1 = 1
	c.RomB = 1
	return c
}

func (c *Cart) page(p int) int { return p % c.RomBanks }

// RomPageLow / RomPageHigh are the pages visible at 0000-3FFF and 4000-7FFF.
func (c *Cart) RomPageLow() int {
	if c.Kind == "mbc1" && c.Mode == 1 {
		return c.page(int(c.Bank2) << 5)
	}
	return 0
}

func (c *Cart) RomPageHigh() int {
	switch c.Kind {
	case "rom":
		return 1
	case "mbc1":
		return c.page(int(c.Bank2)<<5 | int(c.Bank1))
	case "mbc2", "mbc3", "mbc5":
		return c.page(int(c.RomB))
	}
	return 1
}

// RamBankSel is the selected RAM bank (modulo the bank count).
func (c *Cart) RamBankSel() int {
	switch c.Kind {
	case "mbc1":
		if c.Mode == 1 {
			return int(c.Bank2) % c.RamBanks
		}
		return 0
	case "mbc2":
		return 0
	case "mbc3":
		return int(c.RamB&7) % c.RamBanks
	case "mbc5":
		return int(c.RamB&0x0f) % c.RamBanks
	}
	return 0
}

// Read returns the byte visible at a (0000-7FFF, A000-BFFF). known=false means the
// documentation does not determine the value (never-written MBC2 cell low nibble,
// MBC3 register select 0D-0F).
func (c *Cart) Read(a uint16) (v uint8, known bool) {
	switch {
	case a < 0x4000:
		return c.Image[c.RomPageLow()*0x4000+int(a)], true
	case a < 0x8000:
		return c.Image[c.RomPageHigh()*0x4000+int(a-0x4000)], true
	case a >= 0xa000 && a < 0xc000:
		if c.Kind == "rom" || !c.RamOn {
			return 0xff, true
		}
		off := int(a - 0xa000)
		switch c.Kind {
		case "mbc2":
			off %= 512
			return c.RAM[0][off] | 0xf0, c.Written[0][off]
		case "mbc3":
			if c.RamB >= 0x08 {
				if c.RamB <= 0x0c {
					return c.RTC.ReadLatched(c.RamB), true
				}
				return 0xff, false
			}
		}
		return c.RAM[c.RamBankSel()][off], true
	}
	return 0xff, true
}

func (c *Cart) Write(a uint16, v uint8) {
	if a >= 0xa000 && a < 0xc000 {
		if c.Kind == "rom" || !c.RamOn {
			return
		}
		off := int(a - 0xa000)
		switch c.Kind {
		case "mbc2":
			off %= 512
			c.RAM[0][off] = v | 0xf0
			c.Written[0][off] = true
			return
		case "mbc3":
			if c.RamB >= 0x08 {
				if c.RamB <= 0x0c {
					c.RTC.Write(c.RamB, v)
				}
				return
			}
		}
		b := c.RamBankSel()
		c.RAM[b][off] = v
		c.Written[b][off] = true
		return
	}
	if a >= 0x8000 {
		return
	}
	switch c.Kind {
	case "mbc1":
		switch {
		case a < 0x2000:
			c.RamOn = v&0x0f == 0x0a
		case a < 0x4000:
			c.Bank1 = v & 0x1f
			if c.Bank1 == 0 {
				c.Bank1 = 1
			}
		case a < 0x6000:
			c.Bank2 = v & 3
		default:
			c.Mode = v & 1
		}
	case "mbc2":
		if a < 0x4000 {
			if a&0x0100 == 0 {
				c.RamOn = v&0x0f == 0x0a
			} else {
				c.RomB = uint16(v & 0x0f)
				if c.RomB == 0 {
					c.RomB = 1
				}
			}
		}
	case "mbc3":
		switch {
		case a < 0x2000:
			c.RamOn = v&0x0f == 0x0a
		case a < 0x4000:
			c.RomB = uint16(v & 0x7f)
			if c.RomB == 0 {
				c.RomB = 1
			}
		case a < 0x6000:
			c.RamB = v & 0x0f
		default:
			if v&1 == 0 {
				c.LatchLow = true
			} else {
				if c.LatchLow {
					c.RTC.Latch()
				}
				c.LatchLow = false
			}
		}
	case "mbc5":
		switch {
		case a < 0x2000:
			c.RamOn = v&0x0f == 0x0a
		case a < 0x3000:
			c.RomB = c.RomB&0x100 | uint16(v)
		case a < 0x4000:
			c.RomB = c.RomB&0xff | uint16(v&1)<<8
		case a < 0x6000:
			c.RamB = v & 0x0f
		}
	}
}

// Dump is the expected cartridge RAM dump: the banks in order.
func (c *Cart) Dump() []byte {
	var d []byte
	for _, b := range c.RAM {
		d = append(d, b...)
	}
	return d
}

// RTC is the reference MBC3 clock.
type RTC struct {
	S, M, H uint8
	D       uint16 // 9 bits
	Carry   bool
	Halt    bool
	Sub     int // machine cycles into the current second

	LS, LM, LH uint8
	LD         uint16
	LCarry     bool
	LHalt      bool
}

// Tick advances one machine cycle.
func (r *RTC) Tick() {
	if r.Halt {
		return
	}
	r.Sub++
	if r.Sub >= 1048576 {
		r.Sub = 0
		r.Second()
	}
}

// Second is the one-second step: 60/60/24 carries, 9-bit day counter with sticky carry.
// Counters that the guest set outside their normal range (60-63, 24-31) wrap at their bit
// width without carrying (Pan Docs); the statement leaves that open and oracles do not
// judge such states.
func (r *RTC) Second() {
	r.S = (r.S + 1) & 0x3f
	if r.S != 60 {
		return
	}
	r.S = 0
	r.M = (r.M + 1) & 0x3f
	if r.M != 60 {
		return
	}
	r.M = 0
	r.H = (r.H + 1) & 0x1f
	if r.H != 24 {
		return
	}
	r.H = 0
	r.D++
	if r.D == 512 {
		r.D = 0
		r.Carry = true
	}
}

// InRange reports whether all counters are inside their normal ranges.
func (r *RTC) InRange() bool { return r.S < 60 && r.M < 60 && r.H < 24 }

func (r *RTC) Latch() {
	r.LS, r.LM, r.LH, r.LD, r.LCarry, r.LHalt = r.S, r.M, r.H, r.D, r.Carry, r.Halt
}

func (r *RTC) ReadLatched(reg uint8) uint8 {
	switch reg {
	case 0x08:
		return r.LS & 0x3f
	case 0x09:
		return r.LM & 0x3f
	case 0x0a:
		return r.LH & 0x1f
	case 0x0b:
		return uint8(r.LD)
	case 0x0c:
		v := uint8(r.LD>>8) & 1
		if r.LHalt {
			v |= 0x40
		}
		if r.LCarry {
			v |= 0x80
		}
		return v
	}
	return 0xff
}

func (r *RTC) Write(reg uint8, v uint8) {
	switch reg {
	case 0x08:
		r.S = v & 0x3f
		r.Sub = 0
	case 0x09:
		r.M = v & 0x3f
	case 0x0a:
		r.H = v & 0x1f
	case 0x0b:
		r.D = r.D&0x100 | uint16(v)
	case 0x0c:
		r.D = r.D&0xff | uint16(v&1)<<8
		r.Halt = v&0x40 != 0
		r.Carry = v&0x80 != 0
	}
}
