package dmgref

// Reference SM83, organised by the decode fields x,y,z,p,q of the opcode (Pan Docs /
// "DECODING Game Boy Z80 OPCODES" / Game Boy CTR). It executes one machine cycle per call of
// Cycle; every data access is performed in its documented machine cycle. Instruction-stream
// fetches (opcode and immediate operands) are taken when the instruction is decoded: their
// timing is outside the properties.

// Bus is what the reference CPU is connected to.
type Bus interface {
	Fetch(a uint16) uint8    // instruction stream
	Read(a uint16) uint8     // data read, in the current cycle
	Write(a uint16, v uint8) // data write, in the current cycle
	IF() uint8               // FF0F low five bits
	IE() uint8               // FFFF
	AckIF(bit uint)          // clear one IF bit (interrupt dispatch)
}

// Access records one data access of the instruction being executed.
type Access struct {
	Cycle int // 1-based machine cycle within the instruction
	Write bool
	Addr  uint16
	Val   uint8
}

type CPU struct {
	A, F, B, C, D, E, H, L uint8
	SP, PC                 uint16
	IME                    bool
	EIDelay                int // 2: set by EI in this instruction; 1: becomes IME after the next instruction
	Halted                 bool
	HaltBug                bool
	// NoWakeCycle: leaving HALT with the master enable clear costs no machine cycle of its own (the
	// statement does not fix this latency; the DMG spends one cycle, which is the default)
	NoWakeCycle bool
	Bus                    Bus

	// execution state of the instruction in flight
	steps   []func(c *CPU)
	idx     int
	done    bool
	op      uint8
	cb      bool
	lo, hi  uint8 // immediate operands / temporaries
	tmp     uint8
	Acc     []Access // data accesses of the current instruction
	Fetched []uint16 // addresses of the instruction-stream bytes of the current instruction
	Kind    string   // "instr", "dispatch", "halt-idle", "halt-wake"
	Vector  uint16   // for dispatch
	OpPC    uint16   // address of the opcode of the instruction in flight
	Cycles  int      // cycles executed of the instruction in flight
	Undefined bool   // the opcode in flight is undefined (the run must stop before executing it)
}

const (
	flagZ = 0x80
	flagN = 0x40
	flagH = 0x20
	flagC = 0x10
)

// AtBoundary reports whether the next Cycle starts a new instruction (or dispatch/idle).
func (c *CPU) AtBoundary() bool { return c.idx >= len(c.steps) || c.done }

func (c *CPU) rd(a uint16) uint8 {
	v := c.Bus.Read(a)
	c.Acc = append(c.Acc, Access{c.Cycles, false, a, v})
	return v
}
func (c *CPU) wr(a uint16, v uint8) {
	c.Bus.Write(a, v)
	c.Acc = append(c.Acc, Access{c.Cycles, true, a, v})
}

func (c *CPU) bc() uint16 { return uint16(c.B)<<8 | uint16(c.C) }
func (c *CPU) de() uint16 { return uint16(c.D)<<8 | uint16(c.E) }
func (c *CPU) hl() uint16 { return uint16(c.H)<<8 | uint16(c.L) }
func (c *CPU) setHL(v uint16) {
	c.H, c.L = uint8(v>>8), uint8(v)
}
func (c *CPU) nn() uint16 { return uint16(c.hi)<<8 | uint16(c.lo) }

// r8 register file access by the 3-bit field (6 = (HL) handled by callers).
func (c *CPU) getR(i uint8) uint8 {
	switch i {
	case 0:
		return c.B
	case 1:
		return c.C
	case 2:
		return c.D
	case 3:
		return c.E
	case 4:
		return c.H
	case 5:
		return c.L
	case 7:
		return c.A
	}
	panic("dmgref: getR(6)")
}
func (c *CPU) setR(i uint8, v uint8) {
	switch i {
	case 0:
		c.B = v
	case 1:
		c.C = v
	case 2:
		c.D = v
	case 3:
		c.E = v
	case 4:
		c.H = v
	case 5:
		c.L = v
	case 7:
		c.A = v
	default:
		panic("dmgref: setR(6)")
	}
}

// rp register pairs: 0 BC, 1 DE, 2 HL, 3 SP
func (c *CPU) getRP(i uint8) uint16 {
	switch i {
	case 0:
		return c.bc()
	case 1:
		return c.de()
	case 2:
		return c.hl()
	}
	return c.SP
}
func (c *CPU) setRP(i uint8, v uint16) {
	switch i {
	case 0:
		c.B, c.C = uint8(v>>8), uint8(v)
	case 1:
		c.D, c.E = uint8(v>>8), uint8(v)
	case 2:
		c.H, c.L = uint8(v>>8), uint8(v)
	default:
		c.SP = v
	}
}

func (c *CPU) cond(y uint8) bool {
	switch y & 3 {
	case 0:
		return c.F&flagZ == 0
	case 1:
		return c.F&flagZ != 0
	case 2:
		return c.F&flagC == 0
	}
	return c.F&flagC != 0
}

func fl(z, n, h, cy bool) uint8 {
	var f uint8
	if z {
		f |= flagZ
	}
	if n {
		f |= flagN
	}
	if h {
		f |= flagH
	}
	if cy {
		f |= flagC
	}
	return f
}

// alu performs the eight accumulator operations selected by y.
func (c *CPU) alu(y uint8, v uint8) {
	a := c.A
	cin := uint16(0)
	if c.F&flagC != 0 {
		cin = 1
	}
	switch y {
	case 0: // ADD
		r := uint16(a) + uint16(v)
		c.A = uint8(r)
		c.F = fl(uint8(r) == 0, false, (a&0xf)+(v&0xf) > 0xf, r > 0xff)
	case 1: // ADC
		r := uint16(a) + uint16(v) + cin
		c.A = uint8(r)
		c.F = fl(uint8(r) == 0, false, uint16(a&0xf)+uint16(v&0xf)+cin > 0xf, r > 0xff)
	case 2: // SUB
		r := uint16(a) - uint16(v)
		c.A = uint8(r)
		c.F = fl(uint8(r) == 0, true, (a&0xf) < (v&0xf), a < v)
	case 3: // SBC
		r := int(a) - int(v) - int(cin)
		c.A = uint8(r)
		c.F = fl(uint8(r) == 0, true, int(a&0xf)-int(v&0xf)-int(cin) < 0, r < 0)
	case 4: // AND
		c.A = a & v
		c.F = fl(c.A == 0, false, true, false)
	case 5: // XOR
		c.A = a ^ v
		c.F = fl(c.A == 0, false, false, false)
	case 6: // OR
		c.A = a | v
		c.F = fl(c.A == 0, false, false, false)
	case 7: // CP
		c.F = fl(a == v, true, (a&0xf) < (v&0xf), a < v)
	}
}

func (c *CPU) inc8(v uint8) uint8 {
	r := v + 1
	c.F = c.F&flagC | fl(r == 0, false, v&0xf == 0xf, false)
	return r
}
func (c *CPU) dec8(v uint8) uint8 {
	r := v - 1
	c.F = c.F&flagC | fl(r == 0, true, v&0xf == 0, false)
	return r
}

// rot performs the CB-prefixed rotate/shift group selected by y.
func (c *CPU) rot(y uint8, v uint8) uint8 {
	cin := c.F&flagC != 0
	var r uint8
	var cy bool
	switch y {
	case 0: // RLC
		cy = v&0x80 != 0
		r = v<<1 | v>>7
	case 1: // RRC
		cy = v&1 != 0
		r = v>>1 | v<<7
	case 2: // RL
		cy = v&0x80 != 0
		r = v << 1
		if cin {
			r |= 1
		}
	case 3: // RR
		cy = v&1 != 0
		r = v >> 1
		if cin {
			r |= 0x80
		}
	case 4: // SLA
		cy = v&0x80 != 0
		r = v << 1
	case 5: // SRA
		cy = v&1 != 0
		r = v>>1 | v&0x80
	case 6: // SWAP
		r = v<<4 | v>>4
	case 7: // SRL
		cy = v&1 != 0
		r = v >> 1
	}
	c.F = fl(r == 0, false, false, cy)
	return r
}

func (c *CPU) daa() {
	a := c.A
	n, h, cy := c.F&flagN != 0, c.F&flagH != 0, c.F&flagC != 0
	if !n {
		corr := uint8(0)
		if h || a&0xf > 9 {
			corr |= 0x06
		}
		if cy || a > 0x99 {
			corr |= 0x60
			cy = true
		}
		a += corr
	} else {
		if h {
			a -= 0x06
		}
		if cy {
			a -= 0x60
		}
	}
	c.A = a
	c.F = fl(a == 0, n, false, cy)
}

// addSPe computes SP + signed e with the flags of the unsigned low-byte addition.
func (c *CPU) addSPe(e uint8) uint16 {
	sp := c.SP
	r := sp + uint16(int16(int8(e)))
	c.F = fl(false, false, (sp&0xf)+uint16(e&0xf) > 0xf, (sp&0xff)+uint16(e) > 0xff)
	return r
}

func nopStep(c *CPU) {}

// begin selects what happens at an instruction boundary.
func (c *CPU) begin() {
	c.Acc = c.Acc[:0]
	c.Fetched = c.Fetched[:0]
	c.Cycles = 0
	c.idx = 0
	c.done = false
	c.Undefined = false
	pending := c.Bus.IE() & c.Bus.IF() & 0x1f
	// EI delay: the enable takes effect after the instruction following EI has executed
	if c.EIDelay > 0 {
		c.EIDelay--
		if c.EIDelay == 0 {
			c.IME = true
		}
	}
	if c.Halted {
		if pending == 0 {
			c.Kind = "halt-idle"
			c.steps = []func(*CPU){nopStep}
			return
		}
		c.Halted = false
		if !c.IME && !c.NoWakeCycle {
			// leaves HALT without dispatching; costs one machine cycle
			c.Kind = "halt-wake"
			c.steps = []func(*CPU){nopStep}
			return
		}
		if c.IME {
			c.dispatch(pending, 6)
			return
		}
	}
	if c.IME && pending != 0 {
		c.dispatch(pending, 5)
		return
	}
	c.Kind = "instr"
	c.OpPC = c.PC
	c.op = c.fetchAt(c.PC)
	if c.HaltBug {
		c.HaltBug = false
	} else {
		c.PC++
	}
	c.cb = false
	if c.op == 0xcb {
		c.cb = true
		c.op = c.fetchAt(c.PC)
		c.PC++
		c.steps = c.decodeCB()
		return
	}
	c.steps = c.decode()
}

// fetchAt reads one byte of the instruction stream and notes its address (instruction-stream
// fetches are not timed, but an observer of the bus needs to tell them from data reads).
func (c *CPU) fetchAt(a uint16) uint8 {
	c.Fetched = append(c.Fetched, a)
	return c.Bus.Fetch(a)
}

func (c *CPU) fetch8() {
	c.lo = c.fetchAt(c.PC)
	c.PC++
}
func (c *CPU) fetch16() {
	c.lo = c.fetchAt(c.PC)
	c.hi = c.fetchAt(c.PC + 1)
	c.PC += 2
}

func (c *CPU) dispatch(pending uint8, cycles int) {
	c.Kind = "dispatch"
	bit := uint(0)
	for pending&(1<<bit) == 0 {
		bit++
	}
	c.Vector = 0x40 + 8*uint16(bit)
	c.IME = false
	c.EIDelay = 0
	st := []func(*CPU){}
	for i := 0; i < cycles-3; i++ {
		st = append(st, nopStep)
	}
	st = append(st,
		func(c *CPU) { c.SP--; c.wr(c.SP, uint8(c.PC>>8)) },
		func(c *CPU) { c.SP--; c.wr(c.SP, uint8(c.PC)) },
		func(c *CPU) { c.Bus.AckIF(bit); c.PC = c.Vector },
	)
	c.steps = st
}

// Cycle executes one machine cycle.
func (c *CPU) Cycle() {
	if c.AtBoundary() {
		c.begin()
	}
	c.Cycles++
	c.steps[c.idx](c)
	c.idx++
}

// RunInstruction executes cycles until the next boundary and returns their number.
func (c *CPU) RunInstruction() int {
	c.Cycle()
	for !c.AtBoundary() {
		c.Cycle()
	}
	return c.Cycles
}

type step = func(*CPU)

func (c *CPU) decode() []step {
	op := c.op
	x, y, z := op>>6, (op>>3)&7, op&7
	p, q := y>>1, y&1
	switch x {
	case 0:
		switch z {
		case 0:
			switch {
			case y == 0: // NOP
				return []step{nopStep}
			case y == 1: // LD (nn),SP
				c.fetch16()
				return []step{nopStep, nopStep, nopStep,
					func(c *CPU) { c.wr(c.nn(), uint8(c.SP)) },
					func(c *CPU) { c.wr(c.nn()+1, uint8(c.SP>>8)) }}
			case y == 2: // STOP
				return []step{nopStep}
			case y == 3: // JR e
				c.fetch8()
				return []step{nopStep, nopStep, func(c *CPU) { c.PC += uint16(int16(int8(c.lo))) }}
			default: // JR cc,e
				c.fetch8()
				if !c.cond(y - 4) {
					return []step{nopStep, nopStep}
				}
				return []step{nopStep, nopStep, func(c *CPU) { c.PC += uint16(int16(int8(c.lo))) }}
			}
		case 1:
			if q == 0 { // LD rp,nn
				c.fetch16()
				return []step{nopStep, nopStep, func(c *CPU) { c.setRP(p, c.nn()) }}
			}
			// ADD HL,rp
			return []step{nopStep, func(c *CPU) {
				hl, v := c.hl(), c.getRP(p)
				r := uint32(hl) + uint32(v)
				c.F = c.F&flagZ | fl(false, false, (hl&0xfff)+(v&0xfff) > 0xfff, r > 0xffff)
				c.setHL(uint16(r))
			}}
		case 2:
			switch y {
			case 0: // LD (BC),A
				return []step{nopStep, func(c *CPU) { c.wr(c.bc(), c.A) }}
			case 1:
				return []step{nopStep, func(c *CPU) { c.A = c.rd(c.bc()) }}
			case 2:
				return []step{nopStep, func(c *CPU) { c.wr(c.de(), c.A) }}
			case 3:
				return []step{nopStep, func(c *CPU) { c.A = c.rd(c.de()) }}
			case 4:
				return []step{nopStep, func(c *CPU) { c.wr(c.hl(), c.A); c.setHL(c.hl() + 1) }}
			case 5:
				return []step{nopStep, func(c *CPU) { c.A = c.rd(c.hl()); c.setHL(c.hl() + 1) }}
			case 6:
				return []step{nopStep, func(c *CPU) { c.wr(c.hl(), c.A); c.setHL(c.hl() - 1) }}
			default:
				return []step{nopStep, func(c *CPU) { c.A = c.rd(c.hl()); c.setHL(c.hl() - 1) }}
			}
		case 3: // INC/DEC rp
			if q == 0 {
				return []step{nopStep, func(c *CPU) { c.setRP(p, c.getRP(p)+1) }}
			}
			return []step{nopStep, func(c *CPU) { c.setRP(p, c.getRP(p)-1) }}
		case 4: // INC r
			if y == 6 {
				return []step{nopStep, func(c *CPU) { c.tmp = c.rd(c.hl()) }, func(c *CPU) { c.wr(c.hl(), c.inc8(c.tmp)) }}
			}
			return []step{func(c *CPU) { c.setR(y, c.inc8(c.getR(y))) }}
		case 5: // DEC r
			if y == 6 {
				return []step{nopStep, func(c *CPU) { c.tmp = c.rd(c.hl()) }, func(c *CPU) { c.wr(c.hl(), c.dec8(c.tmp)) }}
			}
			return []step{func(c *CPU) { c.setR(y, c.dec8(c.getR(y))) }}
		case 6: // LD r,n
			c.fetch8()
			if y == 6 {
				return []step{nopStep, nopStep, func(c *CPU) { c.wr(c.hl(), c.lo) }}
			}
			return []step{nopStep, func(c *CPU) { c.setR(y, c.lo) }}
		case 7:
			switch y {
			case 0: // RLCA
				return []step{func(c *CPU) { c.A = c.rot(0, c.A); c.F &= flagC }}
			case 1:
				return []step{func(c *CPU) { c.A = c.rot(1, c.A); c.F &= flagC }}
			case 2:
				return []step{func(c *CPU) { c.A = c.rot(2, c.A); c.F &= flagC }}
			case 3:
				return []step{func(c *CPU) { c.A = c.rot(3, c.A); c.F &= flagC }}
			case 4:
				return []step{func(c *CPU) { c.daa() }}
			case 5: // CPL
				return []step{func(c *CPU) { c.A = ^c.A; c.F |= flagN | flagH }}
			case 6: // SCF
				return []step{func(c *CPU) { c.F = c.F&flagZ | flagC }}
			default: // CCF
				return []step{func(c *CPU) { c.F = c.F&flagZ | (c.F^flagC)&flagC }}
			}
		}
	case 1:
		if op == 0x76 { // HALT
			return []step{func(c *CPU) {
				pending := c.Bus.IE() & c.Bus.IF() & 0x1f
				if c.IME || pending == 0 {
					c.Halted = true
				} else {
					c.HaltBug = true
				}
			}}
		}
		switch {
		case z == 6:
			return []step{nopStep, func(c *CPU) { c.setR(y, c.rd(c.hl())) }}
		case y == 6:
			return []step{nopStep, func(c *CPU) { c.wr(c.hl(), c.getR(z)) }}
		}
		return []step{func(c *CPU) { c.setR(y, c.getR(z)) }}
	case 2:
		if z == 6 {
			return []step{nopStep, func(c *CPU) { c.alu(y, c.rd(c.hl())) }}
		}
		return []step{func(c *CPU) { c.alu(y, c.getR(z)) }}
	case 3:
		switch z {
		case 0:
			switch y {
			case 0, 1, 2, 3: // RET cc
				if !c.cond(y) {
					return []step{nopStep, nopStep}
				}
				return []step{nopStep, nopStep,
					func(c *CPU) { c.lo = c.rd(c.SP); c.SP++ },
					func(c *CPU) { c.hi = c.rd(c.SP); c.SP++ },
					func(c *CPU) { c.PC = c.nn() }}
			case 4: // LDH (n),A
				c.fetch8()
				return []step{nopStep, nopStep, func(c *CPU) { c.wr(0xff00|uint16(c.lo), c.A) }}
			case 5: // ADD SP,e
				c.fetch8()
				return []step{nopStep, nopStep, nopStep, func(c *CPU) { c.SP = c.addSPe(c.lo) }}
			case 6: // LDH A,(n)
				c.fetch8()
				return []step{nopStep, nopStep, func(c *CPU) { c.A = c.rd(0xff00 | uint16(c.lo)) }}
			default: // LD HL,SP+e
				c.fetch8()
				return []step{nopStep, nopStep, func(c *CPU) { c.setHL(c.addSPe(c.lo)) }}
			}
		case 1:
			if q == 0 { // POP rp2
				return []step{nopStep,
					func(c *CPU) { c.lo = c.rd(c.SP); c.SP++ },
					func(c *CPU) {
						c.hi = c.rd(c.SP)
						c.SP++
						switch p {
						case 0:
							c.B, c.C = c.hi, c.lo
						case 1:
							c.D, c.E = c.hi, c.lo
						case 2:
							c.H, c.L = c.hi, c.lo
						default:
							c.A, c.F = c.hi, c.lo&0xf0
						}
					}}
			}
			switch p {
			case 0: // RET
				return []step{nopStep,
					func(c *CPU) { c.lo = c.rd(c.SP); c.SP++ },
					func(c *CPU) { c.hi = c.rd(c.SP); c.SP++ },
					func(c *CPU) { c.PC = c.nn() }}
			case 1: // RETI
				return []step{nopStep,
					func(c *CPU) { c.lo = c.rd(c.SP); c.SP++ },
					func(c *CPU) { c.hi = c.rd(c.SP); c.SP++ },
					func(c *CPU) { c.PC = c.nn(); c.IME = true; c.EIDelay = 0 }}
			case 2: // JP (HL)
				return []step{func(c *CPU) { c.PC = c.hl() }}
			default: // LD SP,HL
				return []step{nopStep, func(c *CPU) { c.SP = c.hl() }}
			}
		case 2:
			switch y {
			case 0, 1, 2, 3: // JP cc,nn
				c.fetch16()
				if !c.cond(y) {
					return []step{nopStep, nopStep, nopStep}
				}
				return []step{nopStep, nopStep, nopStep, func(c *CPU) { c.PC = c.nn() }}
			case 4: // LD (C),A
				return []step{nopStep, func(c *CPU) { c.wr(0xff00|uint16(c.C), c.A) }}
			case 5: // LD (nn),A
				c.fetch16()
				return []step{nopStep, nopStep, nopStep, func(c *CPU) { c.wr(c.nn(), c.A) }}
			case 6: // LD A,(C)
				return []step{nopStep, func(c *CPU) { c.A = c.rd(0xff00 | uint16(c.C)) }}
			default: // LD A,(nn)
				c.fetch16()
				return []step{nopStep, nopStep, nopStep, func(c *CPU) { c.A = c.rd(c.nn()) }}
			}
		case 3:
			switch y {
			case 0: // JP nn
				c.fetch16()
				return []step{nopStep, nopStep, nopStep, func(c *CPU) { c.PC = c.nn() }}
			case 6: // DI
				return []step{func(c *CPU) { c.IME = false; c.EIDelay = 0 }}
			case 7: // EI
				return []step{func(c *CPU) {
					if !c.IME && c.EIDelay == 0 {
						c.EIDelay = 2
					}
				}}
			}
		case 4:
			if y < 4 { // CALL cc,nn
				c.fetch16()
				if !c.cond(y) {
					return []step{nopStep, nopStep, nopStep}
				}
				return callSteps
			}
		case 5:
			if q == 0 { // PUSH rp2
				return []step{nopStep, nopStep,
					func(c *CPU) {
						c.SP--
						switch p {
						case 0:
							c.wr(c.SP, c.B)
						case 1:
							c.wr(c.SP, c.D)
						case 2:
							c.wr(c.SP, c.H)
						default:
							c.wr(c.SP, c.A)
						}
					},
					func(c *CPU) {
						c.SP--
						switch p {
						case 0:
							c.wr(c.SP, c.C)
						case 1:
							c.wr(c.SP, c.E)
						case 2:
							c.wr(c.SP, c.L)
						default:
							c.wr(c.SP, c.F)
						}
					}}
			}
			if p == 0 { // CALL nn
				c.fetch16()
				return callSteps
			}
		case 6: // alu A,n
			c.fetch8()
			return []step{nopStep, func(c *CPU) { c.alu(y, c.lo) }}
		case 7: // RST
			return []step{nopStep, nopStep,
				func(c *CPU) { c.SP--; c.wr(c.SP, uint8(c.PC>>8)) },
				func(c *CPU) { c.SP--; c.wr(c.SP, uint8(c.PC)); c.PC = uint16(y) * 8 }}
		}
	}
	c.Undefined = true
	return []step{nopStep}
}

var callSteps = []step{nopStep, nopStep, nopStep, nopStep,
	func(c *CPU) { c.SP--; c.wr(c.SP, uint8(c.PC>>8)) },
	func(c *CPU) { c.SP--; c.wr(c.SP, uint8(c.PC)); c.PC = c.nn() }}

func (c *CPU) decodeCB() []step {
	op := c.op
	x, y, z := op>>6, (op>>3)&7, op&7
	if z == 6 {
		switch x {
		case 0:
			return []step{nopStep, nopStep, func(c *CPU) { c.tmp = c.rd(c.hl()) }, func(c *CPU) { c.wr(c.hl(), c.rot(y, c.tmp)) }}
		case 1:
			return []step{nopStep, nopStep, func(c *CPU) {
				v := c.rd(c.hl())
				c.F = c.F&flagC | flagH | fl(v&(1<<y) == 0, false, false, false)
			}}
		case 2:
			return []step{nopStep, nopStep, func(c *CPU) { c.tmp = c.rd(c.hl()) }, func(c *CPU) { c.wr(c.hl(), c.tmp&^(1<<y)) }}
		default:
			return []step{nopStep, nopStep, func(c *CPU) { c.tmp = c.rd(c.hl()) }, func(c *CPU) { c.wr(c.hl(), c.tmp|1<<y) }}
		}
	}
	switch x {
	case 0:
		return []step{nopStep, func(c *CPU) { c.setR(z, c.rot(y, c.getR(z))) }}
	case 1:
		return []step{nopStep, func(c *CPU) {
			c.F = c.F&flagC | flagH | fl(c.getR(z)&(1<<y) == 0, false, false, false)
		}}
	case 2:
		return []step{nopStep, func(c *CPU) { c.setR(z, c.getR(z)&^(1<<y)) }}
	}
	return []step{nopStep, func(c *CPU) { c.setR(z, c.getR(z)|1<<y) }}
}

// IsUndefinedOpcode lists the 11 undefined base opcodes.
func IsUndefinedOpcode(op uint8) bool {
	switch op {
	case 0xd3, 0xdb, 0xdd, 0xe3, 0xe4, 0xeb, 0xec, 0xed, 0xf4, 0xfc, 0xfd:
		return true
	}
	return false
}

// Documented lengths, independent of the step lists above, used as a cross-check of the
// reference against itself (see dmgref self-test): cycles when the condition is taken and
// when not (equal for unconditional instructions).
func DocumentedCycles(op uint8, cb bool) (taken, notTaken int) {
	if cb {
		switch {
		case op&7 != 6:
			return 2, 2
		case op>>6 == 1:
			return 3, 3
		}
		return 4, 4
	}
	tbl := map[uint8][2]int{
		0x20: {3, 2}, 0x28: {3, 2}, 0x30: {3, 2}, 0x38: {3, 2},
		0xc0: {5, 2}, 0xc8: {5, 2}, 0xd0: {5, 2}, 0xd8: {5, 2},
		0xc2: {4, 3}, 0xca: {4, 3}, 0xd2: {4, 3}, 0xda: {4, 3},
		0xc4: {6, 3}, 0xcc: {6, 3}, 0xd4: {6, 3}, 0xdc: {6, 3},
	}
	if v, ok := tbl[op]; ok {
		return v[0], v[1]
	}
	one := func(n int) (int, int) { return n, n }
	x, y, z := op>>6, (op>>3)&7, op&7
	switch x {
	case 0:
		switch z {
		case 0:
			switch y {
			case 0, 2:
				return one(1)
			case 1:
				return one(5)
			case 3:
				return one(3)
			}
		case 1:
			if y&1 == 0 {
				return one(3)
			}
			return one(2)
		case 2, 3:
			return one(2)
		case 4, 5:
			if y == 6 {
				return one(3)
			}
			return one(1)
		case 6:
			if y == 6 {
				return one(3)
			}
			return one(2)
		case 7:
			return one(1)
		}
	case 1:
		if op == 0x76 {
			return one(1)
		}
		if z == 6 || y == 6 {
			return one(2)
		}
		return one(1)
	case 2:
		if z == 6 {
			return one(2)
		}
		return one(1)
	case 3:
		switch op {
		case 0xe0, 0xf0:
			return one(3)
		case 0xe8:
			return one(4)
		case 0xf8:
			return one(3)
		case 0xc1, 0xd1, 0xe1, 0xf1:
			return one(3)
		case 0xc9, 0xd9:
			return one(4)
		case 0xe9:
			return one(1)
		case 0xf9:
			return one(2)
		case 0xe2, 0xf2:
			return one(2)
		case 0xea, 0xfa:
			return one(4)
		case 0xc3:
			return one(4)
		case 0xf3, 0xfb:
			return one(1)
		case 0xc5, 0xd5, 0xe5, 0xf5:
			return one(4)
		case 0xcd:
			return one(6)
		case 0xc6, 0xce, 0xd6, 0xde, 0xe6, 0xee, 0xf6, 0xfe:
			return one(2)
		case 0xc7, 0xcf, 0xd7, 0xdf, 0xe7, 0xef, 0xf7, 0xff:
			return one(4)
		}
	}
	return 0, 0
}
