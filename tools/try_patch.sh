#!/bin/bash
# try_patch.sh <patch.diff> <ID> [tier]  — apply a seeded change to /repo, run the check, undo.
P="$1"; ID="$2"; TIER="${3:-quick}"
cd /repo || exit 2
if ! git diff --quiet; then echo "repo dirty"; exit 2; fi
git apply "$P" || { echo "PATCH-DOES-NOT-APPLY $P"; exit 3; }
( cd /verif && ./check "$ID" "$TIER" 2>&1 | grep -E "^(VIOLATION|violation|HARNESS|done|KNOWN|also)" )
rc=${PIPESTATUS[0]}
git -C /repo checkout -- . ; git -C /repo clean -fdq -- gameboy 2>/dev/null
( cd /verif && ./check build )
exit $rc
