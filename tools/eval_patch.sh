#!/bin/bash
# eval_patch.sh <patch.diff|-> <ID> [tier] [seed] — evaluate a check against a changed copy of the repository
# WITHOUT touching /repo: a scratch worktree of /repo's HEAD is made under /tmp/ev, the patch is applied there
# ("-" = no patch: the unchanged tree), the simulator is built against that copy (go -modfile with the replace
# directive pointed at it) and run with its own output directory; everything is removed afterwards. Safe to
# run many at once. This is a development aid for sensitivity experiments; the registered checks and all
# committed evidence come from ./check against /repo itself.
P="$1"; [ "$P" != "-" ] && P="$(readlink -f "$P")"; ID="$2"; TIER="${3:-quick}"; SEED="${4:-1}"
export GOFLAGS=-mod=mod GOPROXY=off GOSUMDB=off GOTOOLCHAIN=local
VERIF="$(cd "$(dirname "$0")/.." && pwd)"
SIM="${VERIF_SIM:-$VERIF/sim}"   # a snapshot of the simulator source may be given (long batch runs while sim/ is being edited)
W=$(mktemp -d /tmp/ev.XXXXXX)
trap 'git -C /repo worktree remove --force "$W/repo" >/dev/null 2>&1; rm -rf "$W"; git -C /repo worktree prune' EXIT
git -C /repo worktree add -q --detach "$W/repo" HEAD || exit 2
if [ "$P" != "-" ]; then git -C "$W/repo" apply "$P" || { echo "PATCH-DOES-NOT-APPLY $P"; exit 3; }; fi
mkdir -p "$W/out" "$W/bin"
cp "$VERIF/known_findings.json" "$W/out/"
sed "s#=> /repo#=> $W/repo#" "$SIM/go.mod" > "$W/go.mod"; cp /repo/go.sum "$W/go.sum"
( cd "$SIM" && go build -modfile="$W/go.mod" -tags verif -o "$W/bin/simcheck" ./cmd/simcheck ) 2> "$W/build.log" || { echo "HARNESS-FAULT build failed"; tail -20 "$W/build.log"; exit 2; }
if [ "$ID" = C25 ]; then
  ( cd "$SIM" && go build -race -modfile="$W/go.mod" -tags verif -o "$W/bin/simcheck-race" ./cmd/simcheck ) 2>> "$W/build.log" || { echo "HARNESS-FAULT race build failed"; tail -20 "$W/build.log"; exit 2; }
fi
VERIF_SEED=$SEED timeout -k 10 14400 "$W/bin/simcheck" -prop "$ID" -tier "$TIER" -verif "$W/out" ${EVAL_WORKERS:+-workers $EVAL_WORKERS} 2>&1 | grep -E "^(VIOLATION|violation|HARNESS|done|KNOWN|also|note)"
rc=${PIPESTATUS[0]}
[ -n "${EVAL_KEEP:-}" ] && [ -d "$W/out/replays" ] && mkdir -p "$EVAL_KEEP" && cp "$W"/out/replays/* "$EVAL_KEEP"/ 2>/dev/null
exit $rc
