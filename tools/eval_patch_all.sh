#!/bin/bash
# eval_patch_all.sh <patch.diff|-> [tier] [seed] [ID...] — like eval_patch.sh but builds once and runs every
# property's check (or the listed ones) against the patched scratch copy. One line per property.
P="$1"; [ "$P" != "-" ] && P="$(readlink -f "$P")"; TIER="${2:-quick}"; SEED="${3:-1}"; shift 3 2>/dev/null
IDS="$*"; [ -z "$IDS" ] && IDS="C01 C02 C03 C04 C05 C06 C07 C08 C09 C10 C11 C12 C13 C14 C15 C16 C17 C18 C19 C20 C21 C22 C23 C24 C25 C26"
export GOFLAGS=-mod=mod GOPROXY=off GOSUMDB=off GOTOOLCHAIN=local
VERIF="$(cd "$(dirname "$0")/.." && pwd)"
SIM="${VERIF_SIM:-$VERIF/sim}"
W=$(mktemp -d /tmp/ev.XXXXXX)
trap 'git -C /repo worktree remove --force "$W/repo" >/dev/null 2>&1; rm -rf "$W"; git -C /repo worktree prune' EXIT
git -C /repo worktree add -q --detach "$W/repo" HEAD || exit 2
if [ "$P" != "-" ]; then git -C "$W/repo" apply "$P" || { echo "PATCH-DOES-NOT-APPLY $P"; exit 3; }; fi
mkdir -p "$W/out" "$W/bin"
cp "$VERIF/known_findings.json" "$W/out/"
sed "s#=> /repo#=> $W/repo#" "$SIM/go.mod" > "$W/go.mod"; cp /repo/go.sum "$W/go.sum"
( cd "$SIM" && go build -modfile="$W/go.mod" -tags verif -o "$W/bin/simcheck" ./cmd/simcheck && go build -race -modfile="$W/go.mod" -tags verif -o "$W/bin/simcheck-race" ./cmd/simcheck ) 2> "$W/build.log" || { echo "HARNESS-FAULT build failed"; tail -20 "$W/build.log"; exit 2; }
worst=0
for ID in $IDS; do
  out=$(VERIF_SEED=$SEED timeout -k 10 14400 "$W/bin/simcheck" -prop "$ID" -tier "$TIER" -verif "$W/out" ${EVAL_WORKERS:+-workers $EVAL_WORKERS} 2>&1); rc=$?
  echo "$ID rc=$rc $(echo "$out" | grep -E "^(violation|HARNESS)" | head -1 | cut -c1-260)"
  [ $rc -gt $worst ] && worst=$rc
  [ -n "${EVAL_KEEP:-}" ] && [ -d "$W/out/replays" ] && mkdir -p "$EVAL_KEEP" && cp "$W"/out/replays/* "$EVAL_KEEP"/ 2>/dev/null
done
exit $worst
