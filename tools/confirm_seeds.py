#!/usr/bin/env python3
"""Confirm seeded changes and archive them under /verif/seeded/<ID>-<x>/.

Usage: confirm_seeds.py [--src DIR] [--wave2] [--no-check] [--tier quick|thorough] [names...]
  --src DIR   where the sub-agents wrote (default /tmp/seed; wave 2: /tmp/seed2)
  --wave2     archive a/b as <ID>-c/<ID>-d (second, independent wave of sub-agents)
  --no-check  only steps 1-3 (scratch worktree), do not touch /repo
  --letters xy  archive a/b as <ID>-x/<ID>-y (later waves: ef, gh, ...)
  --eval      step 4 with tools/eval_patch.sh (patched scratch copy of the repository; /repo untouched)

For each <src>/<ID>/<x>/ (patch.diff, demo_test.go, meta.json written by an independent
sub-agent from the property text only):
  1. apply the patch (or its port in /verif/seeded/<ID>-<x>/patch.diff when the original no
     longer applies because of later fix: commits) in a scratch worktree of /repo HEAD;
  2. the tree must build with -tags verif and the pinned cpu/timer tests must pass;
  3. the demonstration must FAIL with the patch and PASS without it;
  4. run the property's quick check against /repo with the patch applied (tools/try_patch.sh)
     and record whether and how it is detected.
Nothing is committed to /repo; the scratch worktree is removed at the end.
"""
import json, os, subprocess, sys, shutil, glob

ENV = dict(os.environ, GOFLAGS='-mod=mod', GOPROXY='off', GOSUMDB='off', GOTOOLCHAIN='local')
WT = '/tmp/confirm-wt'

def sh(cmd, cwd=None, timeout=1800):
    p = subprocess.run(cmd, shell=True, cwd=cwd, env=ENV, capture_output=True, text=True, timeout=timeout)
    return p.returncode, p.stdout + p.stderr

def main():
    args = sys.argv[1:]
    src, wave2, nocheck, tier = '/tmp/seed', False, False, 'quick'
    letters, use_eval = None, False
    only = []
    while args:
        a = args.pop(0)
        if a == '--src': src = args.pop(0)
        elif a == '--wave2': wave2 = True
        elif a == '--no-check': nocheck = True
        elif a == '--tier': tier = args.pop(0)
        elif a == '--letters': letters = args.pop(0)
        elif a == '--eval': use_eval = True
        else: only.append(a)
    respath = '/verif/seeded/RESULTS.json'
    prev = {}
    if os.path.exists(respath):
        for r in json.load(open(respath)):
            prev[r['seed']] = r
    sh(f'git -C /repo worktree remove --force {WT}')
    shutil.rmtree(WT, ignore_errors=True)
    rc, out = sh(f'git -C /repo worktree add --detach {WT} HEAD')
    assert rc == 0, out
    for d in sorted(glob.glob(src + '/C*/[ab]')):
        pid, x = d.split('/')[-2], d.split('/')[-1]
        if wave2:
            x = {'a': 'c', 'b': 'd'}[x]
        if letters:
            x = {'a': letters[0], 'b': letters[1]}[x]
        name = f'{pid}-{x}'
        if only and name not in only and pid not in only:
            continue
        dst = f'/verif/seeded/{name}'
        os.makedirs(dst, exist_ok=True)
        meta = json.load(open(f'{d}/meta.json'))
        patch = f'{d}/patch.diff'
        ported = False
        sh('git checkout -- . && git clean -fdq', cwd=WT)
        rc, out = sh(f'git apply --check {patch}', cwd=WT)
        if rc != 0:
            if os.path.exists(f'{dst}/patch.diff') and sh(f'git apply --check {dst}/patch.diff', cwd=WT)[0] == 0:
                patch, ported = f'{dst}/patch.diff', True
            else:
                print(name, 'PATCH-DOES-NOT-APPLY (needs a port)'); continue
        rec = {'property': pid, 'summary': meta.get('summary'), 'needs': meta.get('needs'), 'ported_to_fixed_tree': ported,
               'source': 'independent sub-agent given only the property text and a scratch worktree'}
        sh(f'git apply {patch}', cwd=WT)
        rc, out = sh('go build -tags verif ./... && go test -vet=off -count=1 ./gameboy/cpu/... ./gameboy/timer/...', cwd=WT)
        rec['builds_and_existing_tests_pass'] = rc == 0
        demo_dest, demo_cmd = meta.get('demo_dest'), meta.get('demo_cmd')
        demo_cmd = demo_cmd.replace(f'/tmp/wt8/{pid}', WT).replace(f'/tmp/wt7/{pid}', WT).replace(f'/tmp/wt6/{pid}', WT).replace(f'/tmp/wt5/{pid}', WT).replace(f'/tmp/wt4/{pid}', WT).replace(f'/tmp/wt/{pid}', WT).replace('<checkout>', WT)  # the sub-agent's own worktree path
        shutil.copy(f'{d}/demo_test.go', f'{WT}/{demo_dest}')
        rc1, o1 = sh(demo_cmd, cwd=WT)
        rec['demo_fails_with_change'] = rc1 != 0
        sh(f'git apply -R {patch}', cwd=WT)
        rc2, o2 = sh(demo_cmd, cwd=WT)
        rec['demo_passes_without_change'] = rc2 == 0
        if rc2 != 0:
            rec['demo_without_change_output'] = o2[-600:]
        os.remove(f'{WT}/{demo_dest}')
        # my check
        if nocheck:
            lines = []
            rec['detected_by_' + tier] = None
        else:
            tool = 'eval_patch.sh' if use_eval else 'try_patch.sh'
            rc3, o3 = sh(f'/verif/tools/{tool} {patch} {pid} {tier}', cwd='/verif', timeout=4*3600)
            lines = [l for l in o3.splitlines() if l.startswith(('VIOLATION', 'violation', 'HARNESS', 'done', 'PATCH'))]
            rec['check_cmd'] = f'./check {pid} {tier} (with the patch applied to /repo, then reverted)'
            rec['detected_by_' + tier] = any(l.startswith('VIOLATION') for l in lines)
            rec['check_output'] = lines[:4]
        if not ported:
            shutil.copy(patch, f'{dst}/patch.diff')
        shutil.copy(f'{d}/demo_test.go', f'{dst}/demo_test.go')
        rec['demo_dest'], rec['demo_cmd'] = demo_dest, demo_cmd
        json.dump(rec, open(f'{dst}/meta.json', 'w'), indent=1)
        status = 'NOT-RUN' if nocheck else ('DETECTED' if rec['detected_by_' + tier] else 'MISSED')
        ok = rec['builds_and_existing_tests_pass'] and rec['demo_fails_with_change'] and rec['demo_passes_without_change']
        r = prev.get(name, {'seed': name, 'property': pid})
        r['confirmed'], r['ported'] = ok, ported
        if not nocheck:
            r['detected_by_' + tier] = rec['detected_by_' + tier]
            fc = [l for l in lines if l.startswith('violation')]
            r['first_class' if tier == 'quick' else 'first_class_' + tier] = fc[0][:240] if fc else ''
        prev[name] = r
        if not ok:
            print('UNCONFIRMED', name, rec, flush=True)
        print(prev[name], flush=True)
    sh(f'git -C /repo worktree remove --force {WT}')
    shutil.rmtree(WT, ignore_errors=True)
    json.dump([prev[k] for k in sorted(prev)], open(respath, 'w'), indent=1)

main()
