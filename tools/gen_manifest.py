#!/usr/bin/env python3
"""Regenerates /verif/MANIFEST.json from the table below (claimed checks) and properties.jsonl."""
import json, subprocess, os
V = os.path.dirname(os.path.dirname(os.path.abspath(__file__)))
props = [json.loads(l) for l in open(os.path.join(V, 'properties.jsonl'))]

# id -> (design_ref, level text, level note, technique)
TB = 'Trusted: the reference model in sim/dmgref (written from Pan Docs / the statements, never imports the emulator), hooks H1-H3, the scenario executor. Sampling, not proof. '
CLAIMED = {
 'C01': ('6/C01, A.2', 'Seeded search over generated programs (all lock-step opcodes, CB opcodes, histories, interrupt lines rising mid-instruction with dispatch masked) executed by the real CPU inside the real frame loop in lock step with a reference SM83; registers, F low nibble, written memory and IF/IE compared at every instruction boundary, whole plain memory every 48 instructions; finite operand sweeps (8-bit ALU x carry, CB ops, DAA, 16-bit INC/DEC, SP+e, ADD HL) and control-flow sweeps (JR/JR cc x every displacement x every flag nibble, JP/CALL/RET/RETI/RST incl. conditional forms x both outcomes x targets and stack positions incl. page-straddling ones, JP (HL) and LD SP,HL x all 65,536 values; code placed at page ends, at the end of work RAM and at the top of high RAM so that PC wraps) run as directed workloads through the same oracle.',
         TB+'The value space is generated input; the simulator contributes history and interference. HALT/STOP excluded (C05).', 'deterministic simulation: lock-step refinement against reference SM83 over seeded programs + directed sweeps'),
 'C02': ('6/C02', 'Same lock-step executions judged for length: per-cycle callbacks of the real frame loop between instruction boundaries vs documented length (taken/not-taken from the flags at that moment); directed programs run every opcode under all 16 flag nibbles; a quarter of the random programs run while OAM DMA transfers started by the scheduler at arbitrary cycles are in flight.',
         TB+'The repository cycle table is not consulted.', 'deterministic simulation: simulated-clock cycle counts per instruction vs reference SM83'),
 'C03': ('6/C03', 'A simulated peer rewrites every location the tested instruction addresses with a cycle-specific stamp at every cycle boundary (real machine and reference shadow alike); the consumed value identifies the read cycle, the first cycle after which the location no longer holds the stamp identifies the write cycle. Every memory-accessing opcode, after random histories.',
         TB+'Only timing is judged here (wrong values with right timing are C01).', 'deterministic simulation: per-cycle memory stamping by a scheduled peer + reference access cycles'),
 'C04': ('6/C04', 'Interrupt lines raised by the seeded scheduler at arbitrary machine-cycle offsets of short EI/DI/RETI/IF-IE-write sequences; all 2048 IE x IF x IME combinations at a boundary; lock-step reference interrupt controller decides dispatch/no dispatch, vector, IF bit, IME, pushed address, 5-cycle length, EI delay; class stack-on-ie dispatches with SP = 0000/0001 so that the pushed return address lands on IE (the interrupt taken is still the one that was enabled and requested at the boundary).',
         TB+'Vector choice when the pending set changes during the dispatch is accepted either way (documented-compatible).', 'deterministic simulation: interrupt-line fault injection at cycle offsets vs lock-step reference'),
 'C05': ('6/C05', 'HALT under every IME x pending combination followed by every opcode; enabled and not-enabled lines raised k cycles after the HALT (k=0..64 dense, log-spaced to 1e5), key events while idle; lock-step reference decides idle/wake/dispatch(6 cycles)/halt-bug double execution; EI;HALT with a request already pending: one dispatch of 6 cycles, handler once, request acknowledged.',
         TB+'Wake-up latency with IME=0 pinned to one cycle (DMG behaviour, mooneye halt_ime0_nointr_timing).', 'deterministic simulation: wake-up event injection after every idle length vs lock-step reference'),
 'C12': ('6/C12, A.3', 'Seeded search over interleavings of machine cycles with DIV/TIMA/TMA/TAC writes (random schedules, writes placed by the reference model around every overflow, enumerated short sequences from edge/wrap phases), real frame loop, per-cycle refinement check of DIV/TIMA/TMA/TAC/IF against an independent reference timer.',
         TB+'W1 equivalence: a write at boundary b is the guest write in cycle b+1. The TLA+ part of the quantifier is not done (other technique family).', 'deterministic simulation: seeded cycle-exact bus-write schedules vs reference timer (refinement per machine cycle)'),
 'C24': ('6/C24', 'The same scenario (ROM / generated program / random scene / random code, config, key schedule, frames) is run twice in one process with a disturber instance in between and once in a fresh process under another GOMAXPROCS; checkpoint digests every 4096 cycles (pixels, samples, serial, registers, IF/IE, DIV/TIMA, LY/STAT, NR52) and final state digests (frame, cart RAM, WRAM, HRAM, OAM, all I/O registers) must be equal.',
         'Trusted: digest completeness (what is not digested is not compared). A violation is itself a run-to-run difference, so a replay may not reproduce it; the check then still reports it (6 replay attempts).', 'deterministic simulation: replay equality across runs and processes'),
 'C25': ('6/C25', 'Two or three instances with different workloads are advanced in an explicit seeded interleaving (slices of 1-3 cycles, hundreds of cycles, whole frames; instances created while others are mid-run) by a scheduler that owns the only token (each instance runs its real frame loop in a parked goroutine); each instance trace must equal its solo trace; instances of mixed configurations (DebugLCD). Class concurrent (one tenth of the scenarios): 2-4 instances without simulated devices are constructed and run by goroutines released together inside a race-detector build of the simulator (child process); each trace must equal its solo trace and the race detector must stay silent.',
         'Trusted: digest completeness. Class concurrent is the one place where real threads run unscheduled: its verdict (a happens-before race report, or a digest difference) does not depend on the interleaving for code that shares nothing, which is what the unchanged tree must be; it is a minority class beside the seeded interleavings.', 'deterministic simulation: seeded interleaving of instances vs solo runs (+ concurrent construction under the Go race detector)'),
 'C26': ('6/C26', 'Per-cycle progress of every party (timer counter, PPU position, DMA progress, RTC sub-second, audio samples per frame) measured through the yield point of the real frame loop while generated guest programs (with HALT, STOP, DIV/LCDC/DMA writes whose cycle is known from the lock-step reference) run; a timer overflow, whether caused by the counter or by a DIV/TAC write of the guest, must raise the request by the end of the reload cycle (reference timer alongside); real Run() under the simulated context with cancel-before-start, cancel at the k-th Done evaluation, cancel mid-frame, window close; outputs released.',
         TB+'Party progress is read through the verif accessors.', 'deterministic simulation: per-cycle party progress + cancellation/close fault injection into the real Run loop'),
}

CLAIMED.update({
 'C06': ('6/C06', 'Seeded histories of bus reads/writes over all 65,536 addresses (every I/O register, region boundaries, all regions; LCD kept off or free) interleaved with elapsing cycles, plus a single-write pass over every address; read-back after each write, whole-address-space comparison every 200 operations, against a reference memory map with register masks, echo, unusable area, unmapped I/O and a running reference timer.',
         TB+'Sound registers are left to C18; LY/STAT mode with the LCD on to C13; OAM after a DMA is taken over from the emulator (C16 judges it); OBP bits 0-1 accepted either way.', 'deterministic simulation: bus-operation histories vs reference memory map (operation-by-operation refinement)'),
 'C07': ('6/C07', 'The machine is driven into a randomised state by a seeded warm-up (I/O pokes over up to two frames, timer overflow dances, DMA in flight, sound playing), then single writes are performed with no cycle in between and all 65,536 readable locations are diffed before/after; every changed location must be in the documented effect set of the written address (timer registers: exactly the reference timer effect).',
         TB+'Effect sets are per address class as listed in the evidence rule; observation reads are side-effect free (OAM peeked).', 'deterministic simulation: before/after whole-address-space diff around scheduled single writes in seeded machine states'),
 'C08': ('6/C08', 'Stateful conformance of ROM banking run through the simulator: every real controller x ROM size x RAM size configuration, histories of control writes (region edges, A8 set/clear, 0/0A/small/random values) and directed all-256-value sweeps per control region; after every operation both ROM windows are read at nine addresses incl. page signatures and compared with reference controller models; every page carries a unique pattern.',
         TB+'No clock or fault in this property (pure history dependence), said in DESIGN; DMA-vs-bank-switch interleaving is in C16.', 'deterministic simulation (weak fit): control-write histories vs reference MBC models'),
 'C09': ('6/C09', 'Histories of RAM enable/disable, bank/mode selects (incl. out-of-range), writes and reads over the whole window (edges, MBC2 mirrors) interleaved with elapsing cycles on every controller x RAM size; window read back after every operation and Mapper.DumpRAM compared at the end with the reference RAM model; window writes made while an MBC3 clock register or an unmapped select (0D-0F) is selected are performed and must leave every RAM bank as it was.',
         TB+'Nothing is persisted by the emulator, so retention means across gate and bank events in a run.', 'deterministic simulation: RAM gate/bank histories vs reference cartridge RAM model'),
 'C10': ('6/C10', 'Clock time is really run (1,048,576 cycles of the real loop per second); a clock-warp fault jumps the live counters to just before second/minute/hour/day/overflow boundaries; histories of latch-low/latch-high/select/read/write/halt operations separated by cycles to seconds; every read compared with the reference RTC, also while the other bus parties are busy (bursts of OAM DMA transfers, LCD/timer/sound switched on and off by the same histories); one-second step compared on 1.6 million sampled and boundary counter states.',
         TB+'The warp is injected into emulator and model through the verif accessor.', 'deterministic simulation: simulated time + clock-warp faults vs reference RTC'),
 'C11': ('6/C11', 'Storage faults at load (short, odd-sized, random, size-mismatched, missing images; every cart type byte x size codes) and hostile guests (all-256-value single-write sweeps on every control region with reads of every window, random read/write histories anywhere, random bytes and generated programs as code with random interrupt lines and key events, I/O register storms with sound retriggers, LCD and DMA restarts); any panic from emulator frames after successful construction is a violation.',
         'Trusted: the stack classifier that attributes a panic to emulator or harness frames; the undefined-opcode guard (the emulator exits the process there by design).', 'deterministic simulation: load-time storage faults + hostile guest schedules, crash oracle'),
 'C13': ('6/C13, A.4', 'LCD switched off/on by the scripted bus master at arbitrary cycles (uniform, at every mode boundary +-1, at each cycle offset of a line) plus noise writes to LY/STAT/LYC/scroll, LCDC rewrites that keep bit 7 (also inside the shortened first line), scroll/window/palette writes placed around mode boundaries and an object table covering most lines; LY and STAT mode read after every cycle of 1-3 frames and compared with the reference line/mode counter.',
         TB+'Mode 3 has the fixed 41-cycle length of the statement.', 'deterministic simulation: LCD on/off schedules vs reference line/mode counter (per-cycle refinement)'),
 'C14': ('6/C14, A.4', 'Single STAT source x every LYC value x 3-4 frames with LCD off/on switches at random and boundary cycles; scroll/window/palette/LCDC-low-bit writes around mode boundaries, objects on most lines and the constant LYC value stored again at arbitrary cycles (also inside its own line); IF bits 0-1 read and cleared after every cycle so each request is attributed to its cycle; request instants predicted by the reference counter.',
         TB+'Only single-source configurations; line 144 and the switch-on instant accepted either way for the OAM source.', 'deterministic simulation: per-cycle interrupt-request attribution vs reference counter'),
 'C16': ('6/C16, A.5', 'DMA from every source page with random contents; restarts of running transfers at random and boundary cycles; ROM/RAM bank switches and source-byte writes during the transfer; OAM read over the bus at three addresses after every cycle; final OAM must hold, byte for byte, a value the source byte had during the transfer.',
         TB+'LCD off; a byte changed during the copy may be old or new; cycles 0,1,161 of a transfer may or may not block.', 'deterministic simulation: DMA engine vs scripted bus master with mid-transfer faults'),
 'C17': ('6/C17', 'Generated programs move BC/DE/HL/SP through FE00-FEFF after the guest switches the LCD off at every cycle offset of a line / in every mode, or (LCD on) synchronised by polling to VBlank or mode 3; OAM peeked at every instruction boundary must equal the lock-step shadow OAM unless the reference LCD timing was in mode 2 with the LCD on during the instruction.',
         TB+'No DMA in these programs; one boundary of slack around mode 2.', 'deterministic simulation: guest/PPU phase sweep with lock-step shadow OAM'),
})

CLAIMED.update({
 'C15': ('6/C15', 'Random scenes within the statement restrictions (tile data, both maps, both addressing modes, scroll, window anywhere, 0-40 objects incl. partly outside each edge and lines holding exactly ten, flips, palettes, priorities) rendered by the real PPU inside the real frame loop with the LCD switched on at a random cycle of the loop, 2-4 frames, CPU parked or busy; every frame handed to the simulated display whose 144 lines were all drawn from the current scene (the first whole frame after an LCD restart or scene change included) is compared, all 23,040 pixels, with a reference compositor; a third of the scenes align the background and window coordinate systems with each other (same map row/column, one before, one after).',
         TB+'Weak fit, said in DESIGN: the simulator contributes the phase between LCD switch-on, frame loop and display hand-over; the scene->pixel map is generated input. Shade RGB values are learnt per frame and must be consistent, grey and ordered.', 'deterministic simulation (weak fit): frame hand-over phase sweep + reference compositor'),
 'C18': ('6/C18, A.7', 'Histories of writes of arbitrary values to FF10-FF3F and NR52 power toggles interleaved with machine cycles while the sound unit runs; all registers, NR52 and (channel 3 off) wave RAM read back after every operation and elapsed span against the reference register file.',
         TB+'NR52 bits 0-3 belong to C19; wave RAM is re-baselined after writes/retriggers while channel 3 plays.', 'deterministic simulation: register-write histories with power toggles vs reference register file'),
 'C19': ('6/C19, A.7', 'Triggers, length writes, DAC and power toggles placed at every phase of the frame sequencer (uniform and within 2 cycles of a step), runs of up to three emulated seconds; the sequencer grid is calibrated per run by observation, then the reference status/length/sweep model steps every 2048 cycles and NR52 is compared after every machine cycle; directed full-length runs.',
         TB+'The NR10 negate-clear quirk is not in the statement and is kept out of the schedules.', 'deterministic simulation: event placement over frame-sequencer phases vs reference length/status model (per-cycle)'),
 'C20': ('6/C20', 'Simulated audio consumer: per-cycle drain with cycle stamps (95-clock grid between re-phasings, L/R pairing, 44,149-44,150 pairs per second, none while off, range, zero when nothing routed); slow consumer with capacity 1-64 and burst reads while the emulator runs its own Run loop in a goroutine and really blocks (stream equality with the prompt consumer); paired runs differing only in an unrouted channel.',
         TB+'A once-per-second re-phasing gap of 96-189 clocks is accepted (the statement gives two incompatible figures).', 'deterministic simulation: simulated consumer with back-pressure/stall faults + history checks on the sample stream'),
 'C21': ('6/C21', 'Waveform step counts over windows of whole periods for sampled (quick) or all (thorough) frequencies of channels 1-3, cycles between shift-register clocks for NR43 values, output sequence period 32767/127 and no shorter, while other channels are triggered at random cycles; channel 1 while its sweep unit rewrites the frequency (every step interval is the period of a frequency of the sweep sequence, walked forwards, ending at the final one).',
         TB+'Weak fit, said in DESIGN: clock-only; positions read through the verif accessor.', 'deterministic simulation (weak fit): period measurement on the simulated clock with cross-channel interference'),
 'C22': ('6/C22', 'Random walks of key down/up events delivered through the simulated display seam interleaved with JOYP writes and reads at arbitrary cycles against a reference joypad; all 576 reachable (select, directions, buttons) states are reached in the quick budget (reported).',
         TB+'Weak fit, said in DESIGN; BFS named in the quantifier is model checking and is not done.', 'deterministic simulation (weak fit): user-input event walks vs reference joypad'),
 'C23': ('6/C23', 'Generated programs interleaving SB/SC writes (all store forms) with DMA starts, timer/LCD/sound pokes and interrupt dispatch, with and without a writer; blargg ROMs as guests with SB writes snooped at instruction boundaries; the recorded writer history must equal the written sequence (and, if a program leaves its path, the SB stores actually executed) exactly once, in order, nothing else; SB/SC read FF; class pair: two instances with slow writers that block inside Write before consuming the byte while the scheduler runs the other instance.',
         TB+'Writer errors are not injected (panic by design, statement silent).', 'deterministic simulation: recorded serial history vs guest write sequence (exactly-once, in-order)'),
})

# classes added in the later sessions (waves 3-7 of seeded changes, DESIGN.md 10.5-10.13); appended to the level text
EXT = {
 'C01': 'banked code, stores through OAM pointers with the LCD on, marker self-loads with the test ROMs\' verdict registers, bus-write oracle (hook H4)',
 'C02': 'DMA in flight, frame-loop boundary, wait-loop idioms of real guests with the LCD on, key events during programs',
 'C03': 'bus read/write oracle with cycles (hook H4), instruction behind HALT / a jump / a frame boundary, hardware registers (IF, FF46 included) as stamped targets, immediates that coincide with register pairs',
 'C04': 'HALT and CB-prefixed instructions in sequences, DMA in flight, dispatch pushing onto IE',
 'C05': 'EI;HALT with a pending request, CB prefix behind the halt bug, wake-up dispatch pushing onto IE',
 'C06': 'timer-hot, ie-dispatch and dma-hot classes, instruction trace and DebugLCD configurations',
 'C07': 'control write + store unobserved in between, reference cartridge after every cartridge write, per-channel status bits',
 'C08': 'every type byte of a family, 8 MiB MBC3, headers in every page, sparse observation, controller-less images declaring more ROM/RAM, distinct pages with equal checksums',
 'C09': 'as C08, mid-history dumps, DMA from cartridge space',
 'C10': 'ROM sizes to 8 MiB, DMA bursts and other-unit writes meanwhile, floods of latch-0 writes',
 'C11': 'process exit as a violation (journalled workers), corner programs, trimmed dumps, headers in every page',
 'C12': 'enumerated triples of writes in consecutive cycles, environment dimensions (CPU halted/stopped, other units busy)',
 'C13': 'LCD on for more than 256 frames, LY stores at line starts, LCDC rewritten in the first line after switch-on',
 'C14': 'unacknowledged requests, source selected while the LCD is on, switch-off inside the LYC line, LYC/LY stores inside the LYC line',
 'C15': 'first frame after a restart judged in its own vertical blank, crowds at the edges, same-value stores into video registers mid-frame',
 'C16': 'out-of-range value replaced in flight, CPU stores into OAM and pointer traffic during the transfer, the HRAM routine run by the CPU, MBC3/MBC5 cartridges, long idle afterwards',
 'C17': 'DMA class with pointer steps in its first cycles, code executed out of OAM, LCDC variety, second-frame line 0',
 'C18': 'environment dimensions, wave RAM across power cycles while other channels run',
 'C19': 'full-length, sweep-on-step and sweep-shadow directed classes',
 'C20': 'stream must start and not dry up, route class with NRx4-only restarts, everything-routed / equal-level values, envelope rewrites',
 'C21': 'sweep class, fresh machine, noise retuned without trigger, notes on second boundaries',
 'C22': 'bursts and storms of 2^8..2^17 events between reads, minute-long holds, Super Game Boy packet probe',
 'C23': 'executed-store oracle, read-modify-write forms, pairs of instances with slow writers, 70,000-byte lines, standard output and standard error watched',
 'C24': 'host stalls, cartridge shapes with first-touch reads, consumer-pace class (real Run loop against bursty consumers), bus traffic in the trace, one ROM file name and modification time for all instances, an undefined opcode first in the fresh process',
 'C25': 'concurrent class under the race detector, crowds of 9-13 instances, instances of one cartridge shape (clock cartridges), second release, bus traffic in the trace, one ROM file name for all instances with image ground truth',
 'C26': 'sound-unit clock, soak class, write-induced overflows incl. stores every other cycle, harness-acknowledged timer requests',
}
NOT_YET = 'check not built yet in this session; planned in DESIGN.md section 6 (will be claimed when its simulator scenario class and oracle exist)'
NOT_APPLICABLE = {}

hooks = subprocess.run(['git','-C','/repo','log','--format=%H','--grep=^verif hook'],capture_output=True,text=True).stdout.split()
checks=[]; na=[]
for p in props:
    i=p['id']
    if i in CLAIMED:
        ref,text,note,tech=CLAIMED[i]
        if i in EXT:
            text += ' Later extensions (DESIGN.md 10.5-10.13; the evidence file carries the full current rule): ' + EXT[i] + '.'
            ref += ', 10.5-10.13'
        checks.append({
          'property_id': i,
          'quick_cmd': f'./check {i} quick',
          'thorough_cmd': f'./check {i} thorough',
          'evidence_file': f'/verif/evidence/{i}.json',
          'replay_cmd_template': f'./check {i} --replay {{path}}',
          'engine': 'simcheck',
          'level_claimed': {'category':'exploration','text':text,'design_ref':ref},
          'level_note': note,
          'technique': tech,
        })
    else:
        na.append({'property_id': i, 'reason': NOT_APPLICABLE.get(i, NOT_YET)})
m={
 'version':1,
 'setup_cmd':'./check build',
 'hooks':{
   'guard':'verif (Go build tag)',
   'enable':'go build -tags verif (done by ./check from /repo\'s working tree; harness module sim/ replaces github.com/scottyw/tetromino => /repo)',
   'baseline_off_cmd':'cd /repo && GOFLAGS=-mod=mod GOPROXY=off GOSUMDB=off go test -json -vet=off -count=1 -timeout 25m ./...',
   'source_commits':hooks,
   'add_only':True,
 },
 'engines':[{'name':'simcheck','path':'/verif/sim','serves_properties':[c['property_id'] for c in checks],
   'kind_free_text':'deterministic simulation with fault injection: seeded scenario generator -> explicit timed event list (= replay file) -> real emulator frame loop under a SimContext with a per-machine-cycle yield point -> reference-model/history oracles; worker processes; ddmin minimiser; replay verified in a fresh process'}],
 'checks':checks,
 'not_applicable':na,
 'notes':'Exit codes: 0 held (KNOWN-FINDING lines possible), 1 VIOLATION line, 2 harness/build/watchdog trouble (never a VIOLATION). VERIF_SEED selects the seed (default 1). Known findings: /verif/known_findings.json. Hook H1 adds one //go:build !verif line to display.go and speakers.go (the only non-additive-looking edit; no code line is changed) and one call line in runFrame.',
}
json.dump(m,open(os.path.join(V,'MANIFEST.json'),'w'),indent=1)
print('claimed',len(checks),'not claimed',len(na))
