#!/usr/bin/env python3
"""Regenerates /verif/MANIFEST.json from the table below (claimed checks) and properties.jsonl."""
import json, subprocess, os
V = os.path.dirname(os.path.dirname(os.path.abspath(__file__)))
props = [json.loads(l) for l in open(os.path.join(V, 'properties.jsonl'))]

# id -> (design_ref, level text, level note, technique)
CLAIMED = {
 'C12': ('6/C12, A.3',
   'Seeded search over interleavings of machine cycles with DIV/TIMA/TMA/TAC writes (random schedules, writes placed by the reference model around every overflow, enumerated short sequences from edge/wrap phases), real frame loop, per-cycle refinement check of DIV/TIMA/TMA/TAC/IF against an independent reference timer. Sampling, not proof.',
   'Trusted: the reference timer in sim/dmgref/timer.go (from the statement and Pan Docs), the W1 equivalence "write at boundary b = guest write in cycle b+1", hooks H2/H3. The TLA+ part of the quantifier is not done (other technique family).',
   'deterministic simulation: seeded cycle-exact bus-write schedules vs reference timer (refinement per machine cycle)'),
}
NOT_YET = 'check not built yet in this session; planned in DESIGN.md section 6 (will be claimed when its simulator scenario class and oracle exist)'
NOT_APPLICABLE = {}

hooks = subprocess.run(['git','-C','/repo','log','--format=%H','--grep=^verif hook'],capture_output=True,text=True).stdout.split()
checks=[]; na=[]
for p in props:
    i=p['id']
    if i in CLAIMED:
        ref,text,note,tech=CLAIMED[i]
        checks.append({
          'property_id': i,
          'quick_cmd': f'./check {i} quick',
          'thorough_cmd': f'./check {i} thorough',
          'evidence_file': f'/verif/evidence/{i}.json',
          'replay_cmd_template': f'./check {i} --replay {{path}}',
          'engine': 'simcheck',
          'level_claimed': {'category':'exploration','text':text,'design_ref':ref},
          'level_note': note,
          'technique': tech,
        })
    else:
        na.append({'property_id': i, 'reason': NOT_APPLICABLE.get(i, NOT_YET)})
m={
 'version':1,
 'setup_cmd':'./check build',
 'hooks':{
   'guard':'verif (Go build tag)',
   'enable':'go build -tags verif (done by ./check from /repo\'s working tree; harness module sim/ replaces github.com/scottyw/tetromino => /repo)',
   'baseline_off_cmd':'cd /repo && GOFLAGS=-mod=mod GOPROXY=off GOSUMDB=off go test -json -vet=off -count=1 -timeout 25m ./...',
   'source_commits':hooks,
   'add_only':True,
 },
 'engines':[{'name':'simcheck','path':'/verif/sim','serves_properties':[c['property_id'] for c in checks],
   'kind_free_text':'deterministic simulation with fault injection: seeded scenario generator -> explicit timed event list (= replay file) -> real emulator frame loop under a SimContext with a per-machine-cycle yield point -> reference-model/history oracles; worker processes; ddmin minimiser; replay verified in a fresh process'}],
 'checks':checks,
 'not_applicable':na,
 'notes':'Exit codes: 0 held (KNOWN-FINDING lines possible), 1 VIOLATION line, 2 harness/build/watchdog trouble (never a VIOLATION). VERIF_SEED selects the seed (default 1). Known findings: /verif/known_findings.json. Hook H1 adds one //go:build !verif line to display.go and speakers.go (the only non-additive-looking edit; no code line is changed) and one call line in runFrame.',
}
json.dump(m,open(os.path.join(V,'MANIFEST.json'),'w'),indent=1)
print('claimed',len(checks),'not claimed',len(na))
