#!/usr/bin/env python3
"""Regenerates /verif/MANIFEST.json from the table below (claimed checks) and properties.jsonl."""
import json, subprocess, os
V = os.path.dirname(os.path.dirname(os.path.abspath(__file__)))
props = [json.loads(l) for l in open(os.path.join(V, 'properties.jsonl'))]

# id -> (design_ref, level text, level note, technique)
TB = 'Trusted: the reference model in sim/dmgref (written from Pan Docs / the statements, never imports the emulator), hooks H1-H3, the scenario executor. Sampling, not proof. '
CLAIMED = {
 'C01': ('6/C01, A.2', 'Seeded search over generated programs (all lock-step opcodes, CB opcodes, histories, interrupt lines rising mid-instruction with dispatch masked) executed by the real CPU inside the real frame loop in lock step with a reference SM83; registers, F low nibble, written memory and IF/IE compared at every instruction boundary, whole plain memory every 48 instructions; finite operand sweeps (8-bit ALU x carry, CB ops, DAA, 16-bit INC/DEC, SP+e, ADD HL) run as directed workloads through the same oracle.',
         TB+'The value space is generated input; the simulator contributes history and interference. HALT/STOP excluded (C05).', 'deterministic simulation: lock-step refinement against reference SM83 over seeded programs + directed sweeps'),
 'C02': ('6/C02', 'Same lock-step executions judged for length: per-cycle callbacks of the real frame loop between instruction boundaries vs documented length (taken/not-taken from the flags at that moment); directed programs run every opcode under all 16 flag nibbles.',
         TB+'The repository cycle table is not consulted.', 'deterministic simulation: simulated-clock cycle counts per instruction vs reference SM83'),
 'C03': ('6/C03', 'A simulated peer rewrites every location the tested instruction addresses with a cycle-specific stamp at every cycle boundary (real machine and reference shadow alike); the consumed value identifies the read cycle, the first cycle after which the location no longer holds the stamp identifies the write cycle. Every memory-accessing opcode, after random histories.',
         TB+'Only timing is judged here (wrong values with right timing are C01).', 'deterministic simulation: per-cycle memory stamping by a scheduled peer + reference access cycles'),
 'C04': ('6/C04', 'Interrupt lines raised by the seeded scheduler at arbitrary machine-cycle offsets of short EI/DI/RETI/IF-IE-write sequences; all 2048 IE x IF x IME combinations at a boundary; lock-step reference interrupt controller decides dispatch/no dispatch, vector, IF bit, IME, pushed address, 5-cycle length, EI delay.',
         TB+'Vector choice when the pending set changes during the dispatch is accepted either way (documented-compatible).', 'deterministic simulation: interrupt-line fault injection at cycle offsets vs lock-step reference'),
 'C05': ('6/C05', 'HALT under every IME x pending combination followed by every opcode; enabled and not-enabled lines raised k cycles after the HALT (k=0..64 dense, log-spaced to 1e5), key events while idle; lock-step reference decides idle/wake/dispatch(6 cycles)/halt-bug double execution.',
         TB+'Wake-up latency with IME=0 pinned to one cycle (DMG behaviour, mooneye halt_ime0_nointr_timing).', 'deterministic simulation: wake-up event injection after every idle length vs lock-step reference'),
 'C12': ('6/C12, A.3', 'Seeded search over interleavings of machine cycles with DIV/TIMA/TMA/TAC writes (random schedules, writes placed by the reference model around every overflow, enumerated short sequences from edge/wrap phases), real frame loop, per-cycle refinement check of DIV/TIMA/TMA/TAC/IF against an independent reference timer.',
         TB+'W1 equivalence: a write at boundary b is the guest write in cycle b+1. The TLA+ part of the quantifier is not done (other technique family).', 'deterministic simulation: seeded cycle-exact bus-write schedules vs reference timer (refinement per machine cycle)'),
 'C24': ('6/C24', 'The same scenario (ROM / generated program / random scene / random code, config, key schedule, frames) is run twice in one process with a disturber instance in between and once in a fresh process under another GOMAXPROCS; checkpoint digests every 4096 cycles (pixels, samples, serial, registers, IF/IE, DIV/TIMA, LY/STAT, NR52) and final state digests (frame, cart RAM, WRAM, HRAM, OAM, all I/O registers) must be equal.',
         'Trusted: digest completeness (what is not digested is not compared). A violation is itself a run-to-run difference, so a replay may not reproduce it; the check then still reports it (6 replay attempts).', 'deterministic simulation: replay equality across runs and processes'),
 'C25': ('6/C25', 'Two or three instances with different workloads are advanced in an explicit seeded interleaving (slices of 1-3 cycles, hundreds of cycles, whole frames; instances created while others are mid-run) by a scheduler that owns the only token (each instance runs its real frame loop in a parked goroutine); each instance trace must equal its solo trace.',
         'Trusted: digest completeness. Truly concurrent runs under the race detector are not part of the deciding step.', 'deterministic simulation: seeded interleaving of instances vs solo runs'),
 'C26': ('6/C26', 'Per-cycle progress of every party (timer counter, PPU position, DMA progress, RTC sub-second, audio samples per frame) measured through the yield point of the real frame loop while generated guest programs (with HALT, STOP, DIV/LCDC/DMA writes whose cycle is known from the lock-step reference) run; real Run() under the simulated context with cancel-before-start, cancel at the k-th Done evaluation, cancel mid-frame, window close; outputs released.',
         TB+'Party progress is read through the verif accessors.', 'deterministic simulation: per-cycle party progress + cancellation/close fault injection into the real Run loop'),
}
NOT_YET = 'check not built yet in this session; planned in DESIGN.md section 6 (will be claimed when its simulator scenario class and oracle exist)'
NOT_APPLICABLE = {}

hooks = subprocess.run(['git','-C','/repo','log','--format=%H','--grep=^verif hook'],capture_output=True,text=True).stdout.split()
checks=[]; na=[]
for p in props:
    i=p['id']
    if i in CLAIMED:
        ref,text,note,tech=CLAIMED[i]
        checks.append({
          'property_id': i,
          'quick_cmd': f'./check {i} quick',
          'thorough_cmd': f'./check {i} thorough',
          'evidence_file': f'/verif/evidence/{i}.json',
          'replay_cmd_template': f'./check {i} --replay {{path}}',
          'engine': 'simcheck',
          'level_claimed': {'category':'exploration','text':text,'design_ref':ref},
          'level_note': note,
          'technique': tech,
        })
    else:
        na.append({'property_id': i, 'reason': NOT_APPLICABLE.get(i, NOT_YET)})
m={
 'version':1,
 'setup_cmd':'./check build',
 'hooks':{
   'guard':'verif (Go build tag)',
   'enable':'go build -tags verif (done by ./check from /repo\'s working tree; harness module sim/ replaces github.com/scottyw/tetromino => /repo)',
   'baseline_off_cmd':'cd /repo && GOFLAGS=-mod=mod GOPROXY=off GOSUMDB=off go test -json -vet=off -count=1 -timeout 25m ./...',
   'source_commits':hooks,
   'add_only':True,
 },
 'engines':[{'name':'simcheck','path':'/verif/sim','serves_properties':[c['property_id'] for c in checks],
   'kind_free_text':'deterministic simulation with fault injection: seeded scenario generator -> explicit timed event list (= replay file) -> real emulator frame loop under a SimContext with a per-machine-cycle yield point -> reference-model/history oracles; worker processes; ddmin minimiser; replay verified in a fresh process'}],
 'checks':checks,
 'not_applicable':na,
 'notes':'Exit codes: 0 held (KNOWN-FINDING lines possible), 1 VIOLATION line, 2 harness/build/watchdog trouble (never a VIOLATION). VERIF_SEED selects the seed (default 1). Known findings: /verif/known_findings.json. Hook H1 adds one //go:build !verif line to display.go and speakers.go (the only non-additive-looking edit; no code line is changed) and one call line in runFrame.',
}
json.dump(m,open(os.path.join(V,'MANIFEST.json'),'w'),indent=1)
print('claimed',len(checks),'not claimed',len(na))
