#!/usr/bin/env python3
"""run_seeds.py [--tier quick|thorough] [names...] — run the property's check against every archived
seeded change (/verif/seeded/<ID>-<x>/patch.diff applied to /repo, then reverted) and record the
outcome in seeded/RESULTS.json and the seed's meta.json."""
import json, os, subprocess, sys, glob
from concurrent.futures import ThreadPoolExecutor
args = sys.argv[1:]; tier = 'quick'; only = []; use_eval = False; jobs = 1
while args:
    a = args.pop(0)
    if a == '--tier': tier = args.pop(0)
    elif a == '--eval': use_eval = True   # tools/eval_patch.sh: patched scratch copy, /repo untouched, may run in parallel
    elif a == '-j': jobs = int(args.pop(0))
    else: only.append(a)
respath = '/verif/seeded/RESULTS.json'
prev = {r['seed']: r for r in json.load(open(respath))}
snap = None
if use_eval:
    import tempfile, shutil, atexit
    snap = tempfile.mkdtemp(prefix='simsnap.', dir='/tmp')
    shutil.copytree('/verif/sim', snap + '/sim')
    atexit.register(lambda: shutil.rmtree(snap, ignore_errors=True))
def one(d):
    name = os.path.basename(d); pid = name.split('-')[0]
    try:
        # a change whose effect belongs to another property's statement is judged by that property's check
        pid = json.load(open(f'{d}/meta.json')).get('judged_by', pid)
    except Exception:
        pass
    tool = 'eval_patch.sh' if use_eval else 'try_patch.sh'
    env = dict(os.environ)
    if snap: env['VERIF_SIM'] = snap + '/sim'
    if use_eval and jobs > 1: env['EVAL_WORKERS'] = str(max(2, 16 // jobs))
    p = subprocess.run(f'/verif/tools/{tool} {d}/patch.diff {pid} {tier}', shell=True, cwd='/verif', capture_output=True, text=True, timeout=6*3600, env=env)
    return name, pid, d, p.stdout + p.stderr
todo = []
for d in sorted(glob.glob('/verif/seeded/C*-[a-z]')):
    name = os.path.basename(d); pid = name.split('-')[0]
    if only and name not in only and pid not in only: continue
    todo.append(d)
with ThreadPoolExecutor(max_workers=jobs if use_eval else 1) as ex:
  for name, pid, d, o in ex.map(one, todo):
    lines = [l for l in o.splitlines() if l.startswith(('VIOLATION', 'violation', 'HARNESS', 'done', 'PATCH', 'repo dirty'))]
    det = any(l.startswith('VIOLATION') for l in lines)
    r = prev.get(name, {'seed': name, 'property': pid})
    r['detected_by_' + tier] = det
    fc = [l for l in lines if l.startswith('violation')]
    r['first_class' if tier == 'quick' else 'first_class_' + tier] = fc[0][:240] if fc else ''
    prev[name] = r
    mp = f'{d}/meta.json'
    m = json.load(open(mp))
    m['detected_by_' + tier] = det
    m['check_cmd' if tier == 'quick' else 'check_cmd_' + tier] = f'./check {pid} {tier} (with the patch applied to a copy of /repo)'
    m['check_output' if tier == 'quick' else 'check_output_' + tier] = lines[:4]
    json.dump(m, open(mp, 'w'), indent=1)
    print(name, 'DETECTED' if det else 'MISSED', (fc[0][:200] if fc else [l for l in lines if not l.startswith('done')][:1]), flush=True)
    json.dump([prev[k] for k in sorted(prev)], open(respath, 'w'), indent=1)
