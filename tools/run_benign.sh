#!/bin/bash
# run_benign.sh [tier] — every check against every behaviour-preserving variant (seeded/ok-*): all must exit 0.
# Uses tools/eval_patch_all.sh (patched scratch copies; /repo untouched). Prints one line per (variant, property)
# that is not rc=0, and a summary.
TIER="${1:-quick}"
cd "$(dirname "$0")/.."
SNAP=$(mktemp -d /tmp/simsnap.XXXXXX); cp -r sim "$SNAP/sim"
trap 'rm -rf "$SNAP"' EXIT
bad=0; n=0
for d in seeded/ok-*; do
  out=$(VERIF_SIM="$SNAP/sim" EVAL_WORKERS=${EVAL_WORKERS:-16} tools/eval_patch_all.sh "$d/patch.diff" "$TIER" 1 2>&1)
  n=$((n+1))
  echo "$out" | grep -v " rc=0 " | sed "s#^#$d: #"
  if echo "$out" | grep -qv " rc=0 "; then bad=$((bad+1)); fi
  echo "$d done"
done
echo "benign variants: $n, with an alarm or a fault: $bad"
[ $bad -eq 0 ]
